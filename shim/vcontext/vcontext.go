// Package vcontext replaces "context" in the verification build of package sod:
// Err() and the cancel function are scheduling points.
package vcontext

import (
	"context"
	"time"

	"github.com/0xrawsec/sod/zzverif/vrt"
)

type Context = context.Context
type CancelFunc = context.CancelFunc

var Canceled = context.Canceled
var DeadlineExceeded = context.DeadlineExceeded

func Background() Context { return context.Background() }
func TODO() Context       { return context.TODO() }

type vctx struct {
	context.Context
}

func (c *vctx) Err() error {
	vrt.Point(vrt.KCtxErr)
	return c.Context.Err()
}

func WithCancel(parent Context) (Context, CancelFunc) {
	real, cancel := context.WithCancel(parent)
	return &vctx{real}, func() {
		vrt.Point(vrt.KCancel)
		cancel()
	}
}

func WithValue(parent Context, key, val interface{}) Context {
	return context.WithValue(parent, key, val)
}

// WithTimeout / WithDeadline depend on real timers, which the scheduler does not
// own: they are only available outside controlled executions.
func WithTimeout(parent Context, d time.Duration) (Context, CancelFunc) {
	if vrt.IsControlled() {
		panic("vcontext: WithTimeout is not modelled")
	}
	return context.WithTimeout(parent, d)
}
