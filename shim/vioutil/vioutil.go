// Package vioutil replaces "io/ioutil" in the verification build of package sod.
package vioutil

import (
	"io"
	"io/fs"

	"github.com/0xrawsec/sod/zzverif/vos"
)

var Discard = io.Discard

func ReadAll(r io.Reader) ([]byte, error)  { return io.ReadAll(r) }
func NopCloser(r io.Reader) io.ReadCloser  { return io.NopCloser(r) }
func ReadFile(name string) ([]byte, error) { return vos.ReadFile(name) }
func WriteFile(name string, data []byte, perm fs.FileMode) error {
	return vos.WriteFile(name, data, perm)
}

func ReadDir(name string) ([]fs.FileInfo, error) {
	es, err := vos.ReadDir(name)
	if err != nil {
		return nil, err
	}
	out := make([]fs.FileInfo, 0, len(es))
	for _, e := range es {
		i, err := e.Info()
		if err != nil {
			return nil, err
		}
		out = append(out, i)
	}
	return out, nil
}

func TempFile(dir, pattern string) (*vos.File, error) { return vos.CreateTemp(dir, pattern) }
func TempDir(dir, pattern string) (string, error)     { return vos.MkdirTemp(dir, pattern) }
