// Package vtime replaces "time" in the verification build of package sod: Sleep
// parks the thread on the scheduler's virtual clock. Types and pure functions are
// the real ones. Timers, tickers and After are deliberately absent: code that
// starts using them fails to build against the shim (engine error, not a verdict).
package vtime

import (
	"time"

	"github.com/0xrawsec/sod/zzverif/vrt"
)

type Time = time.Time
type Duration = time.Duration
type Month = time.Month
type Weekday = time.Weekday
type Location = time.Location
type ParseError = time.ParseError

const (
	Nanosecond  = time.Nanosecond
	Microsecond = time.Microsecond
	Millisecond = time.Millisecond
	Second      = time.Second
	Minute      = time.Minute
	Hour        = time.Hour

	RFC3339     = time.RFC3339
	RFC3339Nano = time.RFC3339Nano
	RFC1123     = time.RFC1123
	RFC822      = time.RFC822
	Kitchen     = time.Kitchen
	ANSIC       = time.ANSIC
	UnixDate    = time.UnixDate

	January = time.January
)

var (
	UTC   = time.UTC
	Local = time.Local
)

func Sleep(d Duration) { vrt.Sleep(d) }

// Now: real wall clock outside executions; inside, a fixed epoch plus virtual time.
func Now() Time {
	if vrt.IsControlled() {
		return time.Unix(1700000000, 0).Add(time.Duration(vrt.Now()))
	}
	return time.Now()
}

func Since(t Time) Duration { return Now().Sub(t) }
func Until(t Time) Duration { return t.Sub(Now()) }

func Unix(sec, nsec int64) Time                { return time.Unix(sec, nsec) }
func UnixMilli(ms int64) Time                  { return time.UnixMilli(ms) }
func UnixMicro(us int64) Time                  { return time.UnixMicro(us) }
func ParseDuration(s string) (Duration, error) { return time.ParseDuration(s) }
func Parse(layout, value string) (Time, error) { return time.Parse(layout, value) }
func Date(year int, month Month, day, hour, min, sec, nsec int, loc *Location) Time {
	return time.Date(year, month, day, hour, min, sec, nsec, loc)
}
func FixedZone(name string, offset int) *Location { return time.FixedZone(name, offset) }
func LoadLocation(name string) (*Location, error) { return time.LoadLocation(name) }
