// Package vuuid replaces github.com/google/uuid in the verification build of
// package sod: under the scheduler ids come from a per-execution counter.
package vuuid

import (
	"github.com/google/uuid"

	"github.com/0xrawsec/sod/zzverif/vrt"
)

type UUID = uuid.UUID

var Nil = uuid.Nil

func NewRandom() (UUID, error) {
	if vrt.IsControlled() {
		return UUID(vrt.NextUUID()), nil
	}
	return uuid.NewRandom()
}

func NewUUID() (UUID, error) { return NewRandom() }

func New() UUID {
	u, err := NewRandom()
	if err != nil {
		panic(err)
	}
	return u
}

func NewString() string { return New().String() }

func Parse(s string) (UUID, error)      { return uuid.Parse(s) }
func ParseBytes(b []byte) (UUID, error) { return uuid.ParseBytes(b) }
func MustParse(s string) UUID           { return uuid.MustParse(s) }
func Must(u UUID, err error) UUID       { return uuid.Must(u, err) }
func FromBytes(b []byte) (UUID, error)  { return uuid.FromBytes(b) }
func Validate(s string) error           { _, err := uuid.Parse(s); return err }
