// Package vos replaces "os" in the verification build of package sod. Every call
// goes to the in-memory file system vfs.Cur, or to the real os when vfs.Cur is nil
// (pass-through mode). Only the part of "os" that a storage library plausibly uses
// is present; anything else fails to build against the shim (engine error).
package vos

import (
	"io/fs"
	"os"

	"github.com/0xrawsec/sod/zzverif/vfs"
)

type File = vfs.File
type FileInfo = fs.FileInfo
type FileMode = fs.FileMode
type DirEntry = fs.DirEntry
type PathError = fs.PathError
type LinkError = os.LinkError
type SyscallError = os.SyscallError
type Signal = os.Signal

const (
	O_RDONLY = os.O_RDONLY
	O_WRONLY = os.O_WRONLY
	O_RDWR   = os.O_RDWR
	O_APPEND = os.O_APPEND
	O_CREATE = os.O_CREATE
	O_EXCL   = os.O_EXCL
	O_SYNC   = os.O_SYNC
	O_TRUNC  = os.O_TRUNC

	ModeDir     = fs.ModeDir
	ModePerm    = fs.ModePerm
	ModeType    = fs.ModeType
	ModeSymlink = fs.ModeSymlink

	PathSeparator     = os.PathSeparator
	PathListSeparator = os.PathListSeparator
	DevNull           = os.DevNull
)

var (
	ErrInvalid          = fs.ErrInvalid
	ErrPermission       = fs.ErrPermission
	ErrExist            = fs.ErrExist
	ErrNotExist         = fs.ErrNotExist
	ErrClosed           = fs.ErrClosed
	ErrDeadlineExceeded = os.ErrDeadlineExceeded

	Stdin  = os.Stdin
	Stdout = os.Stdout
	Stderr = os.Stderr
	Args   = os.Args
)

func IsNotExist(err error) bool         { return os.IsNotExist(err) }
func IsExist(err error) bool            { return os.IsExist(err) }
func IsPermission(err error) bool       { return os.IsPermission(err) }
func IsTimeout(err error) bool          { return os.IsTimeout(err) }
func IsPathSeparator(c uint8) bool      { return os.IsPathSeparator(c) }
func Getenv(k string) string            { return os.Getenv(k) }
func LookupEnv(k string) (string, bool) { return os.LookupEnv(k) }
func Getpid() int                       { return os.Getpid() }
func Exit(code int)                     { os.Exit(code) }
func TempDir() string {
	if vfs.Cur != nil {
		return "/tmp"
	}
	return os.TempDir()
}

func wrap(f *os.File, err error) (*File, error) {
	if err != nil {
		return nil, err
	}
	return &File{Real: f}, nil
}

func Stat(name string) (FileInfo, error) {
	if c := vfs.Cur; c != nil {
		return c.Stat(name)
	}
	return os.Stat(name)
}

func Lstat(name string) (FileInfo, error) {
	if c := vfs.Cur; c != nil {
		return c.Stat(name)
	}
	return os.Lstat(name)
}

func Open(name string) (*File, error) {
	if c := vfs.Cur; c != nil {
		return c.OpenFile(name, O_RDONLY, 0)
	}
	return wrap(os.Open(name))
}

func Create(name string) (*File, error) {
	if c := vfs.Cur; c != nil {
		return c.OpenFile(name, O_RDWR|O_CREATE|O_TRUNC, 0666)
	}
	return wrap(os.Create(name))
}

func OpenFile(name string, flag int, perm FileMode) (*File, error) {
	if c := vfs.Cur; c != nil {
		return c.OpenFile(name, flag, perm)
	}
	return wrap(os.OpenFile(name, flag, perm))
}

func Remove(name string) error {
	if c := vfs.Cur; c != nil {
		return c.Remove(name)
	}
	return os.Remove(name)
}

func RemoveAll(name string) error {
	if c := vfs.Cur; c != nil {
		return c.RemoveAll(name)
	}
	return os.RemoveAll(name)
}

func Mkdir(name string, perm FileMode) error {
	if c := vfs.Cur; c != nil {
		return c.Mkdir(name, perm)
	}
	return os.Mkdir(name, perm)
}

func MkdirAll(name string, perm FileMode) error {
	if c := vfs.Cur; c != nil {
		return c.MkdirAll(name, perm)
	}
	return os.MkdirAll(name, perm)
}

func Rename(oldpath, newpath string) error {
	if c := vfs.Cur; c != nil {
		return c.Rename(oldpath, newpath)
	}
	return os.Rename(oldpath, newpath)
}

func Chmod(name string, mode FileMode) error {
	if c := vfs.Cur; c != nil {
		return c.Chmod(name, mode)
	}
	return os.Chmod(name, mode)
}

func Truncate(name string, size int64) error {
	if c := vfs.Cur; c != nil {
		h, err := c.OpenFile(name, O_WRONLY, 0)
		if err != nil {
			return err
		}
		defer h.Close()
		return h.Truncate(size)
	}
	return os.Truncate(name, size)
}

func ReadDir(name string) ([]DirEntry, error) {
	if c := vfs.Cur; c != nil {
		return c.ReadDir(name)
	}
	return os.ReadDir(name)
}

func ReadFile(name string) ([]byte, error) {
	if c := vfs.Cur; c != nil {
		return c.ReadFile(name)
	}
	return os.ReadFile(name)
}

func WriteFile(name string, data []byte, perm FileMode) error {
	if c := vfs.Cur; c != nil {
		return c.WriteFile(name, data, perm)
	}
	return os.WriteFile(name, data, perm)
}

var tmpCounter int

func tmpName(pattern string) string {
	tmpCounter++
	n := tmpCounter
	digits := ""
	for n > 0 {
		digits = string(rune('0'+n%10)) + digits
		n /= 10
	}
	for i := len(pattern) - 1; i >= 0; i-- {
		if pattern[i] == '*' {
			return pattern[:i] + "v" + digits + pattern[i+1:]
		}
	}
	return pattern + "v" + digits
}

// ResetTemp restarts temporary-name generation (called at the start of every execution).
func ResetTemp() { tmpCounter = 0 }

func CreateTemp(dir, pattern string) (*File, error) {
	if c := vfs.Cur; c != nil {
		if dir == "" {
			dir = "/tmp"
			c.PutDir(dir)
		}
		for {
			name := dir + "/" + tmpName(pattern)
			h, err := c.OpenFile(name, O_RDWR|O_CREATE|O_EXCL, 0600)
			if IsExist(err) {
				continue
			}
			return h, err
		}
	}
	return wrap(os.CreateTemp(dir, pattern))
}

func MkdirTemp(dir, pattern string) (string, error) {
	if c := vfs.Cur; c != nil {
		if dir == "" {
			dir = "/tmp"
			c.PutDir(dir)
		}
		for {
			name := dir + "/" + tmpName(pattern)
			err := c.Mkdir(name, 0700)
			if IsExist(err) {
				continue
			}
			return name, err
		}
	}
	return os.MkdirTemp(dir, pattern)
}

func SameFile(a, b FileInfo) bool { return os.SameFile(a, b) }
