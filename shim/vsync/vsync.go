// Package vsync replaces "sync" in the verification build of package sod.
// Under the scheduler every acquire is a scheduling point and blocking is
// modelled (vrt.RW / vrt.Mu); once the model grants the lock the same operation
// is performed on a real, never contended sync primitive so that the race
// detector sees the program's true happens-before edges. Outside an execution the
// real primitives are used directly.
package vsync

import (
	"sync"

	"github.com/0xrawsec/sod/zzverif/vrt"
)

type Locker = sync.Locker
type Map = sync.Map
type Pool = sync.Pool

type RWMutex struct {
	real sync.RWMutex
	m    vrt.RW
}

func (rw *RWMutex) Lock() {
	if vrt.IsControlled() {
		if vrt.LockModel(&rw.m) {
			rw.real.Lock()
		}
		return
	}
	rw.real.Lock()
}

func (rw *RWMutex) Unlock() {
	if vrt.IsControlled() {
		if vrt.UnlockModel(&rw.m) {
			rw.real.Unlock()
		}
		return
	}
	rw.real.Unlock()
}

func (rw *RWMutex) RLock() {
	if vrt.IsControlled() {
		if vrt.RLockModel(&rw.m) {
			rw.real.RLock()
		}
		return
	}
	rw.real.RLock()
}

func (rw *RWMutex) RUnlock() {
	if vrt.IsControlled() {
		if vrt.RUnlockModel(&rw.m) {
			rw.real.RUnlock()
		}
		return
	}
	rw.real.RUnlock()
}

func (rw *RWMutex) TryLock() bool {
	if vrt.IsControlled() {
		vrt.Point(vrt.KLock)
		ok, live := vrt.TryLockModel(&rw.m)
		if ok && live {
			rw.real.Lock()
		}
		return ok
	}
	return rw.real.TryLock()
}

func (rw *RWMutex) TryRLock() bool {
	if vrt.IsControlled() {
		vrt.Point(vrt.KRLock)
		ok, live := vrt.TryRLockModel(&rw.m)
		if ok && live {
			rw.real.RLock()
		}
		return ok
	}
	return rw.real.TryRLock()
}

type rlocker RWMutex

func (r *rlocker) Lock()   { (*RWMutex)(r).RLock() }
func (r *rlocker) Unlock() { (*RWMutex)(r).RUnlock() }

func (rw *RWMutex) RLocker() Locker { return (*rlocker)(rw) }

type Mutex struct {
	real sync.Mutex
	m    vrt.Mu
}

func (mu *Mutex) Lock() {
	if vrt.IsControlled() {
		if vrt.MuLockModel(&mu.m) {
			mu.real.Lock()
		}
		return
	}
	mu.real.Lock()
}

func (mu *Mutex) Unlock() {
	if vrt.IsControlled() {
		if vrt.MuUnlockModel(&mu.m) {
			mu.real.Unlock()
		}
		return
	}
	mu.real.Unlock()
}

func (mu *Mutex) TryLock() bool {
	if vrt.IsControlled() {
		vrt.Point(vrt.KMutexLock)
		ok, live := vrt.MuTryLockModel(&mu.m)
		if ok && live {
			mu.real.Lock()
		}
		return ok
	}
	return mu.real.TryLock()
}

// Once: Do is a scheduling point; a second caller waits for the first.
type Once struct {
	mu   Mutex
	done bool
}

func (o *Once) Do(f func()) {
	o.mu.Lock()
	defer o.mu.Unlock()
	if !o.done {
		defer func() { o.done = true }()
		f()
	}
}

// WaitGroup built on a model mutex and a condition word.
type WaitGroup struct {
	mu   Mutex
	n    int
	zero int32
	real sync.WaitGroup
}

func (wg *WaitGroup) Add(d int) {
	if !vrt.IsControlled() {
		wg.real.Add(d)
		return
	}
	wg.mu.Lock()
	wg.n += d
	if wg.n < 0 {
		wg.mu.Unlock()
		panic("sync: negative WaitGroup counter")
	}
	setZero(&wg.zero, wg.n == 0)
	wg.mu.Unlock()
}

//go:norace
func setZero(p *int32, z bool) {
	if z {
		*p = 1
	} else {
		*p = 0
	}
}

func (wg *WaitGroup) Done() { wg.Add(-1) }

func (wg *WaitGroup) Wait() {
	if !vrt.IsControlled() {
		wg.real.Wait()
		return
	}
	wg.mu.Lock()
	z := wg.n == 0
	setZero(&wg.zero, z)
	wg.mu.Unlock()
	if !z {
		vrt.WaitCond(&wg.zero)
		// synchronise with the last Done through the model mutex
		wg.mu.Lock()
		wg.mu.Unlock()
	}
}
