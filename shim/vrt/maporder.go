package vrt

import (
	"fmt"
	"sort"
)

// MapKeys returns the keys of m in the order in which a rewritten
// "for k := range m" visits them: sorted by default, reversed when MapReverse
// is set or when the explorer takes the (cost 1) alternative at this site.
func MapKeys[M ~map[K]V, K comparable, V any](m M) []K {
	keys := make([]K, 0, len(m))
	for k := range m {
		keys = append(keys, k)
	}
	if len(keys) < 2 {
		return keys
	}
	sort.Slice(keys, func(i, j int) bool { return keyLess(keys[i], keys[j]) })
	if mapRev(len(keys)) {
		for i, j := 0, len(keys)-1; i < j; i, j = i+1, j-1 {
			keys[i], keys[j] = keys[j], keys[i]
		}
	}
	return keys
}

//go:norace
func mapRev(n int) bool {
	rev := MapReverse
	if MapChoice && Controlled {
		if Choose(2, KChoose) == 1 {
			rev = !rev
		}
	}
	return rev
}

func keyLess(a, b interface{}) bool {
	switch x := a.(type) {
	case string:
		return x < b.(string)
	case int:
		return x < b.(int)
	case int64:
		return x < b.(int64)
	case uint64:
		return x < b.(uint64)
	case uint:
		return x < b.(uint)
	case int32:
		return x < b.(int32)
	case uint32:
		return x < b.(uint32)
	case float64:
		return x < b.(float64)
	case bool:
		return !x && b.(bool)
	}
	return fmt.Sprintf("%v", a) < fmt.Sprintf("%v", b)
}
