// Package vrt is the controlled runtime that package sod is linked against by the
// verification overlay (see /verif/DESIGN.md section 2). It owns every source of
// scheduling nondeterminism of the package: threads (the "go" statements),
// lock acquisition, sleeping, context cancellation, uuid generation and map
// iteration order.
//
// Threads are real goroutines but exactly one of them runs at any time. The
// hand-off spins on a plain word inside //go:norace functions, so that it creates
// no happens-before edge the race detector could see; lock grants are mirrored on
// real sync primitives (package vsync) so that the detector sees exactly the
// program's own synchronisation.
//
// All scheduler state lives in fixed-size arrays and is only touched from
// //go:norace functions without closures, maps or growing appends (the runtime's
// map and growslice helpers are race-instrumented on behalf of their caller).
package vrt

import (
	"fmt"
	"runtime"
	"time"
)

const (
	MaxThreads = 30
	MaxPoints  = 4096
	MaxNotes   = 1 << 15
	ctrlID     = -1
)

// wait kinds
const (
	wNone    = iota
	wStart   // new thread, not yet run: always enabled
	wPoint   // plain scheduling point: always enabled
	wRGrant  // blocked in RLock behind an announced writer: enabled once granted
	wDrain   // announced writer waiting for readers to drain
	wWQueue  // writer waiting for the internal writer mutex
	wMutex   // waiting for a plain mutex
	wSleep   // sleeping until wake
	wJoin    // waiting for a thread to finish
	wQuiesce // waiting until no other thread is enabled
	wCond    // waiting for a generic condition word to become non-zero
)

// point kinds (recorded in the event fingerprint and in site coverage)
const (
	KStart = iota + 1
	KLock
	KRLock
	KMutexLock
	KSleep
	KCtxErr
	KCancel
	KJoin
	KTick
	KChoose
	KYield
	KExit
	KFS
	KAtomic
)

type killedT struct{}

// Killed is the sentinel panic value used to unwind parked threads at the end of
// an execution. Harness code that recovers panics must re-panic on it.
var Killed = killedT{}

// RW is the model of sync.RWMutex (writer preferring, exactly as in the Go
// runtime: a reader blocks iff a writer has announced itself; Unlock admits all
// readers blocked so far before the writer mutex is released).
type RW struct {
	readers      int
	wHeld        bool
	wOwner       int
	writerActive bool
}

// Mu is the model of sync.Mutex.
type Mu struct {
	held bool
}

type thread struct {
	held      int  // locks currently held (any mode)
	outerW    bool // holds, in write mode, a lock it acquired while holding nothing
	outerLock *RW
	outerMu   *Mu
	exit      chan struct{} // closed when the thread is over (gives Join a real happens-before edge)
	sleeps    int           // Sleep calls since the thread last acquired a write lock (its "phase")
	id        int
	used      bool
	done      bool
	wait      int
	rw        *RW
	mu        *Mu
	granted   bool
	wake      int64
	join      int
	cond      *int32
	killed    bool
	name      string
}

// PointRec is one recorded decision with more than one option.
type PointRec struct {
	NOpt     uint8
	Chosen   uint8
	Kind     uint8
	CostMask uint32 // bit i set: taking option i instead of option 0 costs one deviation
	Thread   int8
}

// PanicRec describes an application panic inside a thread.
type PanicRec struct {
	Thread int
	Name   string
	Value  string
	Stack  string
}

// Exec is the result of one controlled execution.
type Exec struct {
	Points     []PointRec
	NPoints    int
	Overflow   bool // more decisions than MaxPoints (engine limit)
	Deadlock   bool // no enabled thread, some unfinished, no sleeper that may still wake up
	Horizon    bool // tick budget exhausted while threads were still blocked
	Blocked    []string
	Panics     []PanicRec
	Finger     uint64 // fingerprint of every event (thread, kind) and note
	Events     int
	Ticks      int
	BadPrefix  bool // a prefix entry was out of range: replay divergence
	MaxThreads int
	Trace      []TraceEv
}

// TraceEv is one lock-model event: Kind is 'a' (attempt), 'g' (acquired) or
// 'u' (released); Write tells read or write side.
type TraceEv struct {
	Thread int
	Kind   byte
	Write  bool
}

type sched struct {
	trace     [512]TraceEv
	ntrace    int
	cur       int
	threads   [MaxThreads]thread
	n         int
	running   int
	now       int64
	ticks     int
	maxTicks  int
	maxEvents int
	// events counter when the driver started waiting for quiescence (-1: not waiting)
	quiesceStart int
	step         int64

	prefix  []int
	points  [MaxPoints]PointRec
	npoints int
	ndecis  int
	overflw bool
	badpref bool

	killing  bool
	deadlock bool
	horizon  bool
	finger   uint64
	events   int

	blocked  [MaxThreads]string
	nblocked int

	panics  [MaxThreads]PanicRec
	npanics int

	// policy: when true, TICK is never offered as an alternative while a thread is runnable
	noTickChoice bool
	// policy: when true no alternative is recorded at all (sequential engines)
	sequential bool
	// policy: no alternative is offered while the running thread holds, in write mode, an
	// outermost lock (every step another thread could take either blocks on that lock
	// or commutes with the holder's protected steps)
	atomicOuter bool
}

var (
	// Controlled is true while an execution runs under the scheduler.
	Controlled bool
	// S is the scheduler of the running execution.
	S *sched

	// MapReverse makes every rewritten map range iterate in reverse sorted order
	// (static per execution; used by the sequential engines as a second order).
	MapReverse bool
	// MapChoice turns the order of every rewritten map range with >= 2 keys into
	// an explorer choice (cost 1 for the reversed order).
	MapChoice bool

	// SiteTrace, when non-nil, receives (kind, pc-derived site) of every lock acquire.
	SiteTrace func(kind int, held string, site string)

	uuidCounter uint64

	// TraceOn makes the lock model record attempt / acquired / released events
	// (used by the conformance self-test against the real sync.RWMutex).
	TraceOn bool

	// OnKill, if set, is called by the controller when the execution proper is
	// over and the remaining threads are about to be unwound (race reports
	// produced while unwinding are not attributed to the program).
	OnKill func()
	// OnStart, if set, is called by the controller just before thread 0 starts.
	OnStart func()
)

// Config of one execution.
type Config struct {
	Prefix   []int
	MaxTicks int
	// MaxEvents bounds the number of scheduling events of one execution (default
	// 400000): a thread that keeps running without ever parking (a busy loop) ends
	// the execution as "no progress" instead of running forever.
	MaxEvents    int
	Sequential   bool // never record alternatives: choice 0 everywhere
	NoTickChoice bool
	// AtomicOuterWrite: see sched.atomicOuter (a reduction; off by default)
	AtomicOuterWrite bool
	Step             time.Duration
}

//go:norace
func spinUntil(s *sched, id int) {
	for s.cur != id {
		runtime.Gosched()
	}
}

// Run executes main as thread 0 under the scheduler and returns what happened.
// It must be called from a goroutine that is not itself a scheduled thread.
func Run(cfg Config, main func()) *Exec {
	if IsControlled() {
		panic("vrt.Run: nested execution")
	}
	s := &sched{}
	s.cur = ctrlID
	s.prefix = cfg.Prefix
	s.maxTicks = cfg.MaxTicks
	s.maxEvents = cfg.MaxEvents
	if s.maxEvents == 0 {
		s.maxEvents = 3000000
	}
	s.quiesceStart = -1
	s.step = int64(cfg.Step)
	if s.step == 0 {
		s.step = int64(100 * time.Millisecond)
	}
	s.sequential = cfg.Sequential
	s.noTickChoice = cfg.NoTickChoice
	s.atomicOuter = cfg.AtomicOuterWrite
	s.finger = 1469598103934665603
	setGlobals(s, true)
	newThread(s, "main", main)
	if OnStart != nil {
		OnStart()
	}
	start(s)
	// controller waits until the execution is over
	spinUntil(s, ctrlID)
	if OnKill != nil {
		OnKill()
	}
	killAll(s)
	setGlobals(nil, false)
	x := &Exec{}
	collect(s, x)
	return x
}

//go:norace
func setGlobals(s *sched, on bool) {
	S = s
	if on {
		uuidCounter = 0
	}
	Controlled = on
}

//go:norace
func collect(s *sched, x *Exec) {
	x.NPoints = s.npoints
	x.Points = make([]PointRec, s.npoints)
	for i := 0; i < s.npoints; i++ {
		x.Points[i] = s.points[i]
	}
	x.Overflow = s.overflw
	x.Deadlock = s.deadlock
	x.Horizon = s.horizon
	for i := 0; i < s.nblocked; i++ {
		x.Blocked = append(x.Blocked, s.blocked[i])
	}
	for i := 0; i < s.npanics; i++ {
		x.Panics = append(x.Panics, s.panics[i])
	}
	x.Finger = s.finger
	x.Events = s.events
	x.Ticks = s.ticks
	x.BadPrefix = s.badpref
	x.MaxThreads = s.n
	for i := 0; i < s.ntrace; i++ {
		x.Trace = append(x.Trace, s.trace[i])
	}
}

//go:norace
func start(s *sched) {
	s.running = 0
	s.threads[0].wait = wNone
	s.cur = 0
}

//go:norace
func killAll(s *sched) {
	s.killing = true
	for i := 0; i < s.n; i++ {
		t := &s.threads[i]
		if t.done {
			continue
		}
		t.killed = true
		s.cur = i
		spinUntil(s, ctrlID)
	}
}

//go:norace
func newThread(s *sched, name string, f func()) int {
	if s.n >= MaxThreads {
		panic("vrt: too many threads")
	}
	id := s.n
	s.n++
	t := &s.threads[id]
	t.id = id
	t.used = true
	t.wait = wStart
	t.name = name
	t.exit = make(chan struct{})
	go threadMain(s, id, f)
	return id
}

func threadMain(s *sched, id int, f func()) {
	spinUntil(s, id)
	defer threadExit(s, id)
	if isKilled(s, id) {
		return
	}
	f()
}

//go:norace
func isKilled(s *sched, id int) bool {
	return s.threads[id].killed
}

//go:norace
func exitChan(s *sched, id int) chan struct{} { return s.threads[id].exit }

func threadExit(s *sched, id int) {
	r := recover()
	defer close(exitChan(s, id))
	if r != nil {
		if _, ok := r.(killedT); !ok {
			buf := make([]byte, 16<<10)
			buf = buf[:runtime.Stack(buf, false)]
			recordPanic(s, id, fmt.Sprint(r), string(buf))
		}
	}
	exitSched(s, id)
}

//go:norace
func recordPanic(s *sched, id int, val, stack string) {
	if s.npanics < MaxThreads {
		s.panics[s.npanics] = PanicRec{Thread: id, Name: s.threads[id].name, Value: val, Stack: stack}
		s.npanics++
	}
}

//go:norace
func exitSched(s *sched, id int) {
	t := &s.threads[id]
	t.done = true
	t.wait = wNone
	if s.killing {
		s.cur = ctrlID
		return
	}
	note(s, id, KExit)
	if id == 0 || s.npanics > 0 {
		// the driver finished, or the process would have crashed: the execution is over
		s.cur = ctrlID
		return
	}
	next := decide(s, -1)
	if next < 0 {
		s.cur = ctrlID
		return
	}
	s.running = next
	s.cur = next
}

//go:norace
func note(s *sched, id int, kind int) {
	s.finger = (s.finger ^ uint64(id*131+kind)) * 1099511628211
	s.events++
}

// Note mixes an arbitrary observation (file-system operation, call boundary)
// into the execution fingerprint used by the determinism check.
//
//go:norace
func Note(v uint64) {
	if !Controlled {
		return
	}
	s := S
	s.finger = (s.finger ^ v) * 1099511628211
	s.events++
}

//go:norace
func traceEv(s *sched, id int, kind byte, write bool) {
	if TraceOn && s.ntrace < len(s.trace) {
		s.trace[s.ntrace] = TraceEv{Thread: id, Kind: kind, Write: write}
		s.ntrace++
	}
}

//go:norace
func enabled(s *sched, t *thread) bool {
	if !t.used || t.done {
		return false
	}
	switch t.wait {
	case wNone, wStart, wPoint:
		return true
	case wRGrant:
		return t.granted
	case wDrain:
		return t.rw.readers == 0
	case wWQueue:
		return !t.rw.wHeld
	case wMutex:
		return !t.mu.held
	case wSleep:
		return s.now >= t.wake
	case wJoin:
		return s.threads[t.join].done
	case wCond:
		return *t.cond != 0
	case wQuiesce:
		for i := 0; i < s.n; i++ {
			o := &s.threads[i]
			if o.id != t.id && o.wait != wQuiesce && enabled(s, o) {
				return false
			}
		}
		return true
	}
	return false
}

//go:norace
func earliestWake(s *sched) (int64, bool) {
	var best int64
	found := false
	for i := 0; i < s.n; i++ {
		t := &s.threads[i]
		if t.used && !t.done && t.wait == wSleep && t.wake > s.now {
			if !found || t.wake < best {
				best = t.wake
				found = true
			}
		}
	}
	return best, found
}

// decide picks the next thread to run. self is the id of the deciding thread
// (-1 if it just exited). It returns -1 if the execution cannot continue.
//
//go:norace
func decide(s *sched, self int) int {
	if s.events > s.maxEvents || (s.quiesceStart >= 0 && s.events-s.quiesceStart > 20000) {
		// livelock: somebody keeps taking steps without ever parking (the driver waits
		// for quiescence, or the whole execution never finishes)
		if s.nblocked < MaxThreads {
			s.blocked[s.nblocked] = "busy loop: a thread keeps running without ever parking"
			s.nblocked++
		}
		stuck(s, true)
		return -1
	}
	for {
		var opts [MaxThreads + 1]int
		n := 0
		selfEnabled := false
		if self >= 0 && enabled(s, &s.threads[self]) {
			opts[n] = self
			n++
			selfEnabled = true
		}
		for i := 0; i < s.n; i++ {
			if i == self {
				continue
			}
			if enabled(s, &s.threads[i]) {
				opts[n] = i
				n++
			}
		}
		wake, sleeper := earliestWake(s)
		if n == 0 {
			if sleeper && s.ticks < s.maxTicks {
				s.now = wake
				s.ticks++
				note(s, MaxThreads, KTick)
				continue
			}
			// nothing can run
			stuck(s, sleeper)
			return -1
		}
		tickOpt := -1
		if sleeper && s.ticks < s.maxTicks && !s.noTickChoice && !s.sequential {
			tickOpt = n
			opts[n] = -2
			n++
		}
		choice := 0
		if n > 1 && !s.sequential && !(s.atomicOuter && selfEnabled && s.threads[self].outerW) {
			var mask uint32
			for i := 1; i < n; i++ {
				if selfEnabled || i == tickOpt {
					mask |= 1 << uint(i)
				}
			}
			choice = pick(s, n, mask, KYield, self)
		}
		if opts[choice] == -2 {
			s.now = wake
			s.ticks++
			note(s, MaxThreads, KTick)
			continue
		}
		return opts[choice]
	}
}

//go:norace
func pick(s *sched, n int, mask uint32, kind int, self int) int {
	choice := 0
	if s.ndecis < len(s.prefix) {
		choice = s.prefix[s.ndecis]
		if choice < 0 || choice >= n {
			s.badpref = true
			choice = 0
		}
	}
	s.ndecis++
	if s.npoints < MaxPoints {
		s.points[s.npoints] = PointRec{NOpt: uint8(n), Chosen: uint8(choice), Kind: uint8(kind), CostMask: mask, Thread: int8(self)}
		s.npoints++
	} else {
		s.overflw = true
	}
	return choice
}

//go:norace
func stuck(s *sched, sleeper bool) {
	unfinished := false
	for i := 0; i < s.n; i++ {
		t := &s.threads[i]
		if t.used && !t.done {
			unfinished = true
			if t.wait != wSleep && s.nblocked < MaxThreads {
				s.blocked[s.nblocked] = t.name + ":" + waitName(t.wait)
				s.nblocked++
			}
		}
	}
	if !unfinished {
		return
	}
	if sleeper {
		s.horizon = true
	} else {
		s.deadlock = true
	}
}

func waitName(w int) string {
	switch w {
	case wRGrant:
		return "RLock"
	case wDrain:
		return "Lock(drain)"
	case wWQueue:
		return "Lock(queue)"
	case wMutex:
		return "Mutex.Lock"
	case wJoin:
		return "join"
	case wQuiesce:
		return "quiesce"
	case wCond:
		return "cond"
	case wSleep:
		return "sleep"
	}
	return "runnable"
}

// yield parks the running thread with the wait descriptor already set and
// resumes it when the scheduler picks it again.
//
//go:norace
func yield(s *sched, id int) {
	next := decide(s, id)
	if next < 0 {
		// deadlock or horizon: give control back to the controller, which will
		// unwind every thread (including this one)
		s.cur = ctrlID
		spinUntil(s, id)
	} else if next != id {
		s.running = next
		s.cur = next
		spinUntil(s, id)
	}
	t := &s.threads[id]
	if t.killed {
		panic(Killed)
	}
	t.wait = wNone
}

// IsControlled reports whether an execution is running under the scheduler.
//
//go:norace
func IsControlled() bool { return Controlled }

// Go starts f as a new thread of the execution.
func Go(f func()) {
	if !IsControlled() {
		go f()
		return
	}
	if curKilled() {
		return
	}
	newThread(S0(), "go", f)
}

// GoNamed is Go with a thread name (harness clients).
func GoNamed(name string, f func()) int {
	if !IsControlled() {
		panic("vrt.GoNamed outside an execution")
	}
	return newThread(S0(), name, f)
}

//go:norace
func S0() *sched { return S }

//go:norace
func curKilled() bool {
	s := S
	if s == nil {
		return true
	}
	id := s.cur
	return id < 0 || s.threads[id].killed
}

// SetSequential switches the recording of alternatives off (true) or on (false)
// for the rest of the execution: while it is off the running thread keeps
// running and other threads only run when it waits. Drivers use it to run their
// set-up and final phases unscheduled.
//
//go:norace
func SetSequential(on bool) {
	if !Controlled {
		return
	}
	S.sequential = on
}

// Self returns the id of the running thread.
//
//go:norace
func Self() int {
	if !Controlled {
		return 0
	}
	return S.cur
}

// Point is a plain scheduling point.
//
//go:norace
func Point(kind int) {
	if !Controlled {
		return
	}
	s := S
	id := s.cur
	if id < 0 || s.threads[id].killed {
		return
	}
	note(s, id, kind)
	s.threads[id].wait = wPoint
	yield(s, id)
}

// Sleep parks the running thread for d of virtual time.
func Sleep(d time.Duration) {
	if !IsControlled() {
		time.Sleep(d)
		return
	}
	sleepCtl(int64(d))
}

//go:norace
func sleepCtl(d int64) {
	s := S
	id := s.cur
	if id < 0 || s.threads[id].killed {
		return
	}
	note(s, id, KSleep)
	t := &s.threads[id]
	t.wake = s.now + d
	t.wait = wSleep
	t.sleeps++
	yield(s, id)
}

// Phases returns, for every thread other than the driver, how many times it slept
// since it last acquired a write lock, and whether it is finished. It stands in
// for the part of a background thread's state that lives on its stack (the
// flusher's elapsed-time counter) in state keys.
//
//go:norace
func Phases() []int {
	if !Controlled {
		return nil
	}
	s := S
	out := make([]int, 0, MaxThreads)
	for i := 1; i < s.n; i++ {
		t := &s.threads[i]
		if t.done {
			out = append(out, -1)
		} else {
			out = append(out, t.sleeps)
		}
	}
	return out
}

// Now returns the virtual time in nanoseconds since the start of the execution.
//
//go:norace
func Now() int64 {
	if !Controlled {
		return time.Now().UnixNano()
	}
	return S.now
}

// Tick advances virtual time by n steps, letting every other thread run until
// all of them are parked again after each step. Driver-only.
//
//go:norace
func Tick(n int) {
	if !Controlled {
		return
	}
	s := S
	id := s.cur
	if id < 0 || s.threads[id].killed {
		return
	}
	for i := 0; i < n; i++ {
		s.now += s.step
		note(s, id, KTick)
		s.threads[id].wait = wQuiesce
		s.quiesceStart = s.events
		yield(s, id)
		s.quiesceStart = -1
	}
}

// Quiesce lets every other thread run until none is enabled, without advancing time.
//
//go:norace
func Quiesce() {
	if !Controlled {
		return
	}
	s := S
	id := s.cur
	if id < 0 || s.threads[id].killed {
		return
	}
	s.threads[id].wait = wQuiesce
	s.quiesceStart = s.events
	yield(s, id)
	s.quiesceStart = -1
}

// Join waits for thread tid to finish.
//
//go:norace
func Join(tid int) {
	s := S
	id := s.cur
	if id < 0 || s.threads[id].killed {
		return
	}
	note(s, id, KJoin)
	t := &s.threads[id]
	t.join = tid
	t.wait = wJoin
	yield(s, id)
	// the joined thread is over: synchronise with its exit like a real join does
	<-s.threads[tid].exit
}

// Choose is an environment decision with n options; option 0 is the default,
// every other option costs one deviation.
//
//go:norace
func Choose(n int, kind int) int {
	if !Controlled || n <= 1 {
		return 0
	}
	s := S
	id := s.cur
	if id < 0 || s.threads[id].killed || s.sequential {
		return 0
	}
	var mask uint32
	for i := 1; i < n && i < 32; i++ {
		mask |= 1 << uint(i)
	}
	return pick(s, n, mask, kind, id)
}

// ---- lock model --------------------------------------------------------------

// RLockModel blocks the running thread until it holds m for reading.
//
//go:norace
func RLockModel(m *RW) bool {
	s := S
	id := s.cur
	if id < 0 || s.threads[id].killed {
		return false
	}
	t := &s.threads[id]
	note(s, id, KRLock)
	t.wait = wPoint
	yield(s, id)
	traceEv(s, id, 'a', false)
	if !m.wHeld {
		m.readers++
		t.held++
		traceEv(s, id, 'g', false)
		return true
	}
	t.rw = m
	t.granted = false
	t.wait = wRGrant
	yield(s, id)
	// readers was incremented by the granting Unlock
	t.held++
	traceEv(s, id, 'g', false)
	return true
}

//go:norace
func RUnlockModel(m *RW) bool {
	s := S
	id := s.cur
	if id < 0 || s.threads[id].killed {
		return false
	}
	m.readers--
	s.threads[id].held--
	traceEv(s, id, 'u', false)
	return true
}

//go:norace
func LockModel(m *RW) bool {
	s := S
	id := s.cur
	if id < 0 || s.threads[id].killed {
		return false
	}
	t := &s.threads[id]
	note(s, id, KLock)
	t.wait = wPoint
	yield(s, id)
	traceEv(s, id, 'a', true)
	for m.wHeld {
		t.rw = m
		t.wait = wWQueue
		yield(s, id)
	}
	m.wHeld = true
	m.wOwner = id
	if m.readers != 0 {
		t.rw = m
		t.wait = wDrain
		yield(s, id)
	}
	m.writerActive = true
	t.sleeps = 0
	if t.held == 0 {
		t.outerW = true
		t.outerLock = m
	}
	t.held++
	traceEv(s, id, 'g', true)
	return true
}

//go:norace
func UnlockModel(m *RW) bool {
	s := S
	id := s.cur
	if id < 0 || s.threads[id].killed {
		return false
	}
	m.writerActive = false
	for i := 0; i < s.n; i++ {
		o := &s.threads[i]
		if o.used && !o.done && o.wait == wRGrant && o.rw == m && !o.granted {
			o.granted = true
			m.readers++
		}
	}
	m.wHeld = false
	m.wOwner = -1
	t := &s.threads[id]
	t.held--
	if t.outerLock == m {
		t.outerW = false
		t.outerLock = nil
	}
	traceEv(s, id, 'u', true)
	return true
}

// TryLockModel / TryRLockModel never block.
//
//go:norace
func TryLockModel(m *RW) (ok bool, live bool) {
	s := S
	id := s.cur
	if id < 0 || s.threads[id].killed {
		return false, false
	}
	if m.wHeld || m.readers != 0 {
		return false, true
	}
	m.wHeld = true
	m.wOwner = id
	m.writerActive = true
	t := &s.threads[id]
	if t.held == 0 {
		t.outerW = true
		t.outerLock = m
	}
	t.held++
	return true, true
}

//go:norace
func TryRLockModel(m *RW) (ok bool, live bool) {
	s := S
	id := s.cur
	if id < 0 || s.threads[id].killed {
		return false, false
	}
	if m.wHeld {
		return false, true
	}
	m.readers++
	s.threads[id].held++
	return true, true
}

//go:norace
func MuLockModel(m *Mu) bool {
	s := S
	id := s.cur
	if id < 0 || s.threads[id].killed {
		return false
	}
	t := &s.threads[id]
	note(s, id, KMutexLock)
	t.wait = wPoint
	yield(s, id)
	for m.held {
		t.mu = m
		t.wait = wMutex
		yield(s, id)
	}
	m.held = true
	if t.held == 0 {
		t.outerW = true
		t.outerMu = m
	}
	t.held++
	return true
}

//go:norace
func MuUnlockModel(m *Mu) bool {
	s := S
	id := s.cur
	if id < 0 || s.threads[id].killed {
		return false
	}
	m.held = false
	t := &s.threads[id]
	t.held--
	if t.outerMu == m {
		t.outerW = false
		t.outerMu = nil
	}
	return true
}

//go:norace
func MuTryLockModel(m *Mu) (ok bool, live bool) {
	s := S
	id := s.cur
	if id < 0 || s.threads[id].killed {
		return false, false
	}
	if m.held {
		return false, true
	}
	m.held = true
	t := &s.threads[id]
	if t.held == 0 {
		t.outerW = true
		t.outerMu = m
	}
	t.held++
	return true, true
}

// WaitCond parks the running thread until *c != 0 (WaitGroup, Once and the
// like are built on it by package vsync).
//
//go:norace
func WaitCond(c *int32) {
	s := S
	id := s.cur
	if id < 0 || s.threads[id].killed {
		return
	}
	t := &s.threads[id]
	note(s, id, KYield)
	t.cond = c
	t.wait = wCond
	yield(s, id)
}

// ReaderCount exposes the number of active readers of m (harness diagnostics).
//
//go:norace
func (m *RW) ReaderCount() int { return m.readers }

// ---- uuid and map order -------------------------------------------------------

// NextUUID returns a deterministic RFC-4122 shaped (version 4, variant 1) id.
//
//go:norace
func NextUUID() [16]byte {
	uuidCounter++
	c := uuidCounter
	var u [16]byte
	// spread the counter so that ids do not share long prefixes only
	x := c * 0x9E3779B97F4A7C15
	for i := 0; i < 8; i++ {
		u[i] = byte(x >> (8 * uint(i)))
	}
	for i := 0; i < 8; i++ {
		u[8+i] = byte(c >> (8 * uint(7-i)))
	}
	u[6] = (u[6] & 0x0f) | 0x40
	u[8] = (u[8] & 0x3f) | 0x80
	return u
}
