// Package vfs is the in-memory, POSIX-like file system that package sod talks to
// in the verification build (through the vos / vioutil shims). It keeps a log of
// every mutation (for crash-image materialisation), counts every operation (for
// single-fault injection) and can be snapshotted, hashed and rebuilt from a log
// prefix. In pass-through mode (Cur == nil) the shims use the real "os".
package vfs

import (
	"errors"
	"io"
	"io/fs"
	"os"
	"path/filepath"
	"sort"
	"strings"
	"syscall"
	"time"

	"github.com/0xrawsec/sod/zzverif/vrt"
)

// Cur is the file system seen by package sod; nil means pass-through to the real os.
var Cur *FS

// mutation kinds
const (
	MMkdir  = "mkdir"
	MCreate = "create"
	MTrunc  = "trunc"
	MWrite  = "write"
	MRemove = "remove"
	MRmAll  = "rmall"
	MRename = "rename"
	MSync   = "sync"
	MChmod  = "chmod"
)

// Mut is one logged mutation.
type Mut struct {
	Seq  int    // index in the log
	Call int    // harness call number during which it happened
	Kind string // one of the M* constants
	Path string
	To   string // rename target
	Off  int64
	Data []byte
	Size int64 // trunc size
	Mode fs.FileMode
}

type node struct {
	dir  bool
	data []byte
	mode fs.FileMode
}

// FS is one in-memory file system instance.
type FS struct {
	nodes map[string]*node

	Log    []Mut
	LogOn  bool
	CallNo int

	// fault plan: operation number FailAt (0-based, counting every file-system
	// call of the package) fails. FailKind: "eio" = error, no effect;
	// "partial" = for a write, half of the bytes are persisted, then ENOSPC
	// (for other operations same as eio).
	Ops      int
	FailAt   int
	FailKind string
	Failed   string // description of the operation that was failed ("" if none yet)
	OpTrace  []string
	TraceOps bool
}

// New returns an empty file system containing only "/".
func New() *FS {
	f := &FS{nodes: map[string]*node{}, FailAt: -1}
	f.nodes["/"] = &node{dir: true, mode: fs.ModeDir | 0755}
	return f
}

func clean(p string) string {
	if !filepath.IsAbs(p) {
		p = "/" + p
	}
	return filepath.Clean(p)
}

func perr(op, path string, err error) error {
	return &fs.PathError{Op: op, Path: path, Err: err}
}

// fault counts the operation and returns the injected error if it is the one to fail.
// (norace: the counters are bookkeeping of the shim, two readers of the
// database may legitimately call into the file system at the same time)
//
//go:norace
func (f *FS) fault(op, path string) error {
	k := f.Ops
	f.Ops++
	vrt.Note(uint64(len(op))*31 + uint64(len(path)))
	if f.TraceOps {
		f.OpTrace = append(f.OpTrace, op+" "+path)
	}
	if k == f.FailAt {
		f.Failed = op + " " + path
		if f.FailKind == "partial" && op == "write" {
			return errPartial
		}
		return perr(op, path, syscall.EIO)
	}
	return nil
}

var errPartial = errors.New("partial")

func (f *FS) log(m Mut) {
	if !f.LogOn {
		return
	}
	m.Seq = len(f.Log)
	m.Call = f.CallNo
	f.Log = append(f.Log, m)
}

// ---- core operations ---------------------------------------------------------

func (f *FS) lookup(p string) (*node, error) {
	// every proper ancestor must be a directory
	dir := filepath.Dir(p)
	for d := dir; ; d = filepath.Dir(d) {
		n, ok := f.nodes[d]
		if ok && !n.dir {
			return nil, syscall.ENOTDIR
		}
		if d == "/" {
			break
		}
	}
	n, ok := f.nodes[p]
	if !ok {
		return nil, syscall.ENOENT
	}
	return n, nil
}

func (f *FS) parentOK(p string) error {
	parent := filepath.Dir(p)
	n, err := f.lookup(parent)
	if err != nil {
		return err
	}
	if !n.dir {
		return syscall.ENOTDIR
	}
	return nil
}

type fileInfo struct {
	name string
	size int64
	mode fs.FileMode
}

func (i fileInfo) Name() string       { return i.name }
func (i fileInfo) Size() int64        { return i.size }
func (i fileInfo) Mode() fs.FileMode  { return i.mode }
func (i fileInfo) ModTime() time.Time { return time.Unix(1700000000, 0) }
func (i fileInfo) IsDir() bool        { return i.mode.IsDir() }
func (i fileInfo) Sys() interface{}   { return nil }

type dirEntry struct{ fileInfo }

func (d dirEntry) Type() fs.FileMode          { return d.mode.Type() }
func (d dirEntry) Info() (fs.FileInfo, error) { return d.fileInfo, nil }

func info(p string, n *node) fileInfo {
	m := n.mode
	if n.dir {
		m |= fs.ModeDir
	}
	return fileInfo{name: filepath.Base(p), size: int64(len(n.data)), mode: m}
}

func (f *FS) Stat(name string) (fs.FileInfo, error) {
	p := clean(name)
	if err := f.fault("stat", p); err != nil {
		return nil, err
	}
	n, err := f.lookup(p)
	if err != nil {
		return nil, perr("stat", name, err)
	}
	return info(p, n), nil
}

func (f *FS) Mkdir(name string, perm fs.FileMode) error {
	p := clean(name)
	if err := f.fault("mkdir", p); err != nil {
		return err
	}
	if _, ok := f.nodes[p]; ok {
		return perr("mkdir", name, syscall.EEXIST)
	}
	if err := f.parentOK(p); err != nil {
		return perr("mkdir", name, err)
	}
	f.nodes[p] = &node{dir: true, mode: perm.Perm()}
	f.log(Mut{Kind: MMkdir, Path: p, Mode: perm})
	return nil
}

func (f *FS) MkdirAll(name string, perm fs.FileMode) error {
	p := clean(name)
	if err := f.fault("mkdirall", p); err != nil {
		return err
	}
	return f.mkdirAll(p, name, perm)
}

func (f *FS) mkdirAll(p, name string, perm fs.FileMode) error {
	if n, ok := f.nodes[p]; ok {
		if n.dir {
			return nil
		}
		return perr("mkdir", name, syscall.ENOTDIR)
	}
	parent := filepath.Dir(p)
	if parent != p {
		if err := f.mkdirAll(parent, name, perm); err != nil {
			return err
		}
	}
	f.nodes[p] = &node{dir: true, mode: perm.Perm()}
	f.log(Mut{Kind: MMkdir, Path: p, Mode: perm})
	return nil
}

func (f *FS) Remove(name string) error {
	p := clean(name)
	if err := f.fault("remove", p); err != nil {
		return err
	}
	n, err := f.lookup(p)
	if err != nil {
		return perr("remove", name, err)
	}
	if n.dir {
		for q := range f.nodes {
			if q != p && filepath.Dir(q) == p {
				return perr("remove", name, syscall.ENOTEMPTY)
			}
		}
	}
	if p == "/" {
		return perr("remove", name, syscall.EBUSY)
	}
	delete(f.nodes, p)
	f.log(Mut{Kind: MRemove, Path: p})
	return nil
}

func (f *FS) RemoveAll(name string) error {
	p := clean(name)
	if err := f.fault("removeall", p); err != nil {
		return err
	}
	if _, err := f.lookup(p); err == syscall.ENOTDIR {
		return perr("unlinkat", name, err)
	}
	f.removeAll(p)
	f.log(Mut{Kind: MRmAll, Path: p})
	return nil
}

func (f *FS) removeAll(p string) {
	prefix := p + "/"
	if p == "/" {
		prefix = "/"
	}
	for q := range f.nodes {
		if q == "/" {
			continue
		}
		if q == p || strings.HasPrefix(q, prefix) {
			delete(f.nodes, q)
		}
	}
}

func (f *FS) Rename(oldname, newname string) error {
	op, np := clean(oldname), clean(newname)
	if err := f.fault("rename", op); err != nil {
		return err
	}
	// os.Rename refuses an existing directory as target before calling the kernel
	if t, terr := f.lookup(np); terr == nil && t.dir {
		if _, oerr := f.lookup(op); oerr != nil {
			return &os.LinkError{Op: "rename", Old: oldname, New: newname, Err: oerr}
		}
		if op != np {
			return &os.LinkError{Op: "rename", Old: oldname, New: newname, Err: syscall.EEXIST}
		}
	}
	// the kernel resolves both parent directories before looking at the last components
	if err := f.parentOK(op); err != nil {
		return &os.LinkError{Op: "rename", Old: oldname, New: newname, Err: err}
	}
	if err := f.parentOK(np); err != nil {
		return &os.LinkError{Op: "rename", Old: oldname, New: newname, Err: err}
	}
	n, err := f.lookup(op)
	if err != nil {
		return &os.LinkError{Op: "rename", Old: oldname, New: newname, Err: err}
	}
	if err := f.parentOK(np); err != nil {
		return &os.LinkError{Op: "rename", Old: oldname, New: newname, Err: err}
	}
	if n.dir && strings.HasPrefix(np, op+"/") {
		return &os.LinkError{Op: "rename", Old: oldname, New: newname, Err: syscall.EINVAL}
	}
	if t, ok := f.nodes[np]; ok {
		if t.dir != n.dir {
			e := syscall.ENOTDIR
			if t.dir {
				e = syscall.EISDIR
			}
			return &os.LinkError{Op: "rename", Old: oldname, New: newname, Err: e}
		}
		if t.dir {
			for q := range f.nodes {
				if filepath.Dir(q) == np && q != np {
					return &os.LinkError{Op: "rename", Old: oldname, New: newname, Err: syscall.ENOTEMPTY}
				}
			}
		}
	}
	f.rename(op, np)
	f.log(Mut{Kind: MRename, Path: op, To: np})
	return nil
}

func (f *FS) rename(op, np string) {
	if op == np {
		return
	}
	n := f.nodes[op]
	moved := map[string]*node{np: n}
	if n.dir {
		prefix := op + "/"
		for q, c := range f.nodes {
			if strings.HasPrefix(q, prefix) {
				moved[np+"/"+q[len(prefix):]] = c
				delete(f.nodes, q)
			}
		}
	}
	delete(f.nodes, op)
	for q, c := range moved {
		f.nodes[q] = c
	}
}

func (f *FS) Chmod(name string, mode fs.FileMode) error {
	p := clean(name)
	if err := f.fault("chmod", p); err != nil {
		return err
	}
	n, err := f.lookup(p)
	if err != nil {
		return perr("chmod", name, err)
	}
	n.mode = mode.Perm()
	f.log(Mut{Kind: MChmod, Path: p, Mode: mode})
	return nil
}

func (f *FS) ReadDir(name string) ([]fs.DirEntry, error) {
	p := clean(name)
	if err := f.fault("readdir", p); err != nil {
		return nil, err
	}
	return f.readDir(p, name)
}

func (f *FS) readDir(p, name string) ([]fs.DirEntry, error) {
	n, err := f.lookup(p)
	if err != nil {
		return nil, perr("open", name, err)
	}
	if !n.dir {
		return nil, perr("readdirent", name, syscall.ENOTDIR)
	}
	out := []fs.DirEntry{}
	for q, c := range f.nodes {
		if q != p && filepath.Dir(q) == p {
			out = append(out, dirEntry{info(q, c)})
		}
	}
	sort.Slice(out, func(i, j int) bool { return out[i].Name() < out[j].Name() })
	return out, nil
}

// File is an open handle (or a wrapper around a real *os.File in pass-through mode).
type File struct {
	Real *os.File

	fs     *FS
	n      *node
	path   string
	name   string
	off    int64
	flag   int
	closed bool
	dirpos int
}

func (f *FS) OpenFile(name string, flag int, perm fs.FileMode) (*File, error) {
	p := clean(name)
	if err := f.fault("open", p); err != nil {
		return nil, err
	}
	n, err := f.lookup(p)
	if err != nil {
		if err != syscall.ENOENT || flag&os.O_CREATE == 0 {
			return nil, perr("open", name, err)
		}
		if perr2 := f.parentOK(p); perr2 != nil {
			return nil, perr("open", name, perr2)
		}
		n = &node{mode: perm.Perm()}
		f.nodes[p] = n
		f.log(Mut{Kind: MCreate, Path: p, Mode: perm})
	} else {
		if flag&os.O_CREATE != 0 && flag&os.O_EXCL != 0 {
			return nil, perr("open", name, syscall.EEXIST)
		}
		if n.dir && flag&(os.O_WRONLY|os.O_RDWR) != 0 {
			return nil, perr("open", name, syscall.EISDIR)
		}
		if flag&os.O_TRUNC != 0 && !n.dir {
			if flag&(os.O_WRONLY|os.O_RDWR) != 0 {
				n.data = nil
				f.log(Mut{Kind: MTrunc, Path: p, Size: 0})
			}
		}
	}
	return &File{fs: f, n: n, path: p, name: name, flag: flag}, nil
}

func (h *File) Name() string {
	if h.Real != nil {
		return h.Real.Name()
	}
	return h.name
}

func (h *File) Read(b []byte) (int, error) {
	if h.Real != nil {
		return h.Real.Read(b)
	}
	if h.closed {
		return 0, perr("read", h.name, os.ErrClosed)
	}
	if err := h.fs.fault("read", h.path); err != nil {
		return 0, err
	}
	if h.n.dir {
		return 0, perr("read", h.name, syscall.EISDIR)
	}
	if h.flag&(os.O_WRONLY|os.O_RDWR) == os.O_WRONLY {
		return 0, perr("read", h.name, syscall.EBADF)
	}
	if h.off >= int64(len(h.n.data)) {
		if len(b) == 0 {
			return 0, nil
		}
		return 0, io.EOF
	}
	n := copy(b, h.n.data[h.off:])
	h.off += int64(n)
	return n, nil
}

func (h *File) ReadAt(b []byte, off int64) (int, error) {
	if h.Real != nil {
		return h.Real.ReadAt(b, off)
	}
	if h.closed {
		return 0, perr("read", h.name, os.ErrClosed)
	}
	if err := h.fs.fault("read", h.path); err != nil {
		return 0, err
	}
	if off >= int64(len(h.n.data)) {
		return 0, io.EOF
	}
	n := copy(b, h.n.data[off:])
	if n < len(b) {
		return n, io.EOF
	}
	return n, nil
}

func (h *File) Write(b []byte) (int, error) {
	if h.Real != nil {
		return h.Real.Write(b)
	}
	if h.closed {
		return 0, perr("write", h.name, os.ErrClosed)
	}
	if h.flag&(os.O_WRONLY|os.O_RDWR) == 0 {
		return 0, perr("write", h.name, syscall.EBADF)
	}
	if h.flag&os.O_APPEND != 0 {
		h.off = int64(len(h.n.data))
	}
	if err := h.fs.fault("write", h.path); err != nil {
		if err == errPartial {
			k := len(b) / 2
			h.writeAt(b[:k], h.off)
			h.off += int64(k)
			return k, perr("write", h.name, syscall.ENOSPC)
		}
		return 0, err
	}
	h.writeAt(b, h.off)
	h.off += int64(len(b))
	return len(b), nil
}

func (h *File) writeAt(b []byte, off int64) {
	if len(b) == 0 {
		return
	}
	applyWrite(h.n, off, b)
	// the node may have been unlinked: the write is still logged against the
	// path it was opened with (materialisation ignores writes to missing files)
	cp := make([]byte, len(b))
	copy(cp, b)
	h.fs.log(Mut{Kind: MWrite, Path: h.path, Off: off, Data: cp})
}

func applyWrite(n *node, off int64, b []byte) {
	end := off + int64(len(b))
	if int64(len(n.data)) < end {
		nd := make([]byte, end)
		copy(nd, n.data)
		n.data = nd
	} else {
		// copy on write: snapshots share data slices
		nd := make([]byte, len(n.data))
		copy(nd, n.data)
		n.data = nd
	}
	copy(n.data[off:], b)
}

func (h *File) WriteAt(b []byte, off int64) (int, error) {
	if h.Real != nil {
		return h.Real.WriteAt(b, off)
	}
	if h.closed {
		return 0, perr("write", h.name, os.ErrClosed)
	}
	if err := h.fs.fault("write", h.path); err != nil {
		if err == errPartial {
			k := len(b) / 2
			h.writeAt(b[:k], off)
			return k, perr("write", h.name, syscall.ENOSPC)
		}
		return 0, err
	}
	h.writeAt(b, off)
	return len(b), nil
}

func (h *File) WriteString(s string) (int, error) { return h.Write([]byte(s)) }

func (h *File) Seek(offset int64, whence int) (int64, error) {
	if h.Real != nil {
		return h.Real.Seek(offset, whence)
	}
	switch whence {
	case io.SeekStart:
		h.off = offset
	case io.SeekCurrent:
		h.off += offset
	case io.SeekEnd:
		h.off = int64(len(h.n.data)) + offset
	}
	if h.off < 0 {
		h.off = 0
		return 0, perr("seek", h.name, syscall.EINVAL)
	}
	return h.off, nil
}

func (h *File) Truncate(size int64) error {
	if h.Real != nil {
		return h.Real.Truncate(size)
	}
	if err := h.fs.fault("truncate", h.path); err != nil {
		return err
	}
	truncNode(h.n, size)
	h.fs.log(Mut{Kind: MTrunc, Path: h.path, Size: size})
	return nil
}

func truncNode(n *node, size int64) {
	nd := make([]byte, size)
	copy(nd, n.data)
	n.data = nd
}

func (h *File) Sync() error {
	if h.Real != nil {
		return h.Real.Sync()
	}
	if err := h.fs.fault("sync", h.path); err != nil {
		return err
	}
	h.fs.log(Mut{Kind: MSync, Path: h.path})
	return nil
}

func (h *File) Close() error {
	if h.Real != nil {
		return h.Real.Close()
	}
	if h.closed {
		return perr("close", h.name, os.ErrClosed)
	}
	h.closed = true
	return nil
}

func (h *File) Stat() (fs.FileInfo, error) {
	if h.Real != nil {
		return h.Real.Stat()
	}
	if err := h.fs.fault("fstat", h.path); err != nil {
		return nil, err
	}
	return info(h.path, h.n), nil
}

func (h *File) Chmod(mode fs.FileMode) error {
	if h.Real != nil {
		return h.Real.Chmod(mode)
	}
	h.n.mode = mode.Perm()
	return nil
}

func (h *File) ReadDir(n int) ([]fs.DirEntry, error) {
	if h.Real != nil {
		return h.Real.ReadDir(n)
	}
	all, err := h.fs.readDir(h.path, h.name)
	if err != nil {
		return nil, err
	}
	if h.dirpos > len(all) {
		h.dirpos = len(all)
	}
	rest := all[h.dirpos:]
	if n > 0 {
		if len(rest) == 0 {
			return nil, io.EOF
		}
		if len(rest) > n {
			rest = rest[:n]
		}
	}
	h.dirpos += len(rest)
	return rest, nil
}

func (h *File) Readdir(n int) ([]fs.FileInfo, error) {
	if h.Real != nil {
		return h.Real.Readdir(n)
	}
	es, err := h.ReadDir(n)
	out := make([]fs.FileInfo, 0, len(es))
	for _, e := range es {
		i, _ := e.Info()
		out = append(out, i)
	}
	return out, err
}

func (h *File) Readdirnames(n int) ([]string, error) {
	if h.Real != nil {
		return h.Real.Readdirnames(n)
	}
	es, err := h.ReadDir(n)
	out := make([]string, 0, len(es))
	for _, e := range es {
		out = append(out, e.Name())
	}
	return out, err
}

func (f *FS) ReadFile(name string) ([]byte, error) {
	h, err := f.OpenFile(name, os.O_RDONLY, 0)
	if err != nil {
		return nil, err
	}
	defer h.Close()
	return io.ReadAll(h)
}

func (f *FS) WriteFile(name string, data []byte, perm fs.FileMode) error {
	h, err := f.OpenFile(name, os.O_WRONLY|os.O_CREATE|os.O_TRUNC, perm)
	if err != nil {
		return err
	}
	_, err = h.Write(data)
	if err1 := h.Close(); err1 != nil && err == nil {
		err = err1
	}
	return err
}

// ---- harness-side services (no fault counting, no logging) -------------------------

// Snapshot returns path -> content for regular files and path+"/" -> nil for directories.
func (f *FS) Snapshot() map[string][]byte {
	out := make(map[string][]byte, len(f.nodes))
	for p, n := range f.nodes {
		if n.dir {
			out[p+"/"] = nil
		} else {
			out[p] = n.data
		}
	}
	return out
}

// Clone returns an independent copy (file contents are shared copy-on-write).
func (f *FS) Clone() *FS {
	c := New()
	for p, n := range f.nodes {
		c.nodes[p] = &node{dir: n.dir, data: n.data, mode: n.mode}
	}
	return c
}

// Paths lists all paths below dir (sorted); directories carry a trailing slash.
func (f *FS) Paths(dir string) []string {
	dir = clean(dir)
	var out []string
	for p, n := range f.nodes {
		if p == dir || !strings.HasPrefix(p, strings.TrimSuffix(dir, "/")+"/") {
			continue
		}
		if n.dir {
			out = append(out, p+"/")
		} else {
			out = append(out, p)
		}
	}
	sort.Strings(out)
	return out
}

// Get returns the content of a regular file.
func (f *FS) Get(p string) ([]byte, bool) {
	n, ok := f.nodes[clean(p)]
	if !ok || n.dir {
		return nil, false
	}
	return n.data, true
}

// IsDir reports whether p is a directory.
func (f *FS) IsDir(p string) bool {
	n, ok := f.nodes[clean(p)]
	return ok && n.dir
}

// Exists reports whether p exists.
func (f *FS) Exists(p string) bool {
	_, ok := f.nodes[clean(p)]
	return ok
}

// Put creates or replaces a regular file (parents are created).
func (f *FS) Put(p string, data []byte) {
	p = clean(p)
	f.mkdirAllRaw(filepath.Dir(p))
	cp := make([]byte, len(data))
	copy(cp, data)
	f.nodes[p] = &node{data: cp, mode: 0700}
}

// PutDir creates a directory (parents are created).
func (f *FS) PutDir(p string) { f.mkdirAllRaw(clean(p)) }

func (f *FS) mkdirAllRaw(p string) {
	if _, ok := f.nodes[p]; ok {
		return
	}
	if d := filepath.Dir(p); d != p {
		f.mkdirAllRaw(d)
	}
	f.nodes[p] = &node{dir: true, mode: 0700}
}

// Del removes a path (recursively).
func (f *FS) Del(p string) { f.removeAll(clean(p)) }

// Apply replays one logged mutation (crash-image materialisation). A write may
// be cut to its first cut bytes (cut < 0: whole write).
func (f *FS) Apply(m Mut, cut int) {
	switch m.Kind {
	case MMkdir:
		if _, ok := f.nodes[m.Path]; !ok {
			f.nodes[m.Path] = &node{dir: true, mode: m.Mode.Perm()}
		}
	case MCreate:
		f.nodes[m.Path] = &node{mode: m.Mode.Perm()}
	case MTrunc:
		if n, ok := f.nodes[m.Path]; ok && !n.dir {
			truncNode(n, m.Size)
		}
	case MWrite:
		if n, ok := f.nodes[m.Path]; ok && !n.dir {
			d := m.Data
			if cut >= 0 && cut < len(d) {
				d = d[:cut]
			}
			if len(d) > 0 {
				applyWrite(n, m.Off, d)
			}
		}
	case MRemove:
		delete(f.nodes, m.Path)
	case MRmAll:
		f.removeAll(m.Path)
	case MRename:
		if _, ok := f.nodes[m.Path]; ok {
			f.rename(m.Path, m.To)
		}
	case MChmod:
		if n, ok := f.nodes[m.Path]; ok {
			n.mode = m.Mode.Perm()
		}
	case MSync:
	}
}
