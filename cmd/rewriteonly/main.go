// Command rewriteonly writes the rewritten copy of /repo and its overlay.json
// into the given directory (development aid: build the harness by hand).
package main

import (
	"fmt"
	"os"

	"verif/internal/rewrite"
)

func main() {
	repo := os.Getenv("VERIF_REPO")
	if repo == "" {
		repo = "/repo"
	}
	res, err := rewrite.Run(repo, "/verif/shim", os.Args[1], nil)
	if err != nil {
		fmt.Fprintln(os.Stderr, err)
		os.Exit(2)
	}
	fmt.Println(res.Overlay)
}
