package main

func parseRaces(prop string, m *merged) {}
