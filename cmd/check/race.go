package main

import (
	"fmt"
	"sort"
	"strings"
)

// parseRaces turns the race detector's reports (stderr of the race-built
// workers) into violations. A report counts when at least one of the two
// accesses is made by code of package sod (first frame below the runtime /
// standard library that belongs to sod, the harness or a shim) and none is an
// access to shim memory; reports produced while leftover threads are unwound at
// the end of an execution (#KILL ... #BEGIN) are ignored.
func parseRaces(prop string, m *merged) {
	total, counted, ignoredShim, ignoredKill := 0, 0, 0, 0
	for _, out := range m.races {
		lines := strings.Split(out, "\n")
		inKill := false
		curProg := ""
		for i := 0; i < len(lines); i++ {
			l := lines[i]
			switch {
			case strings.HasPrefix(l, "#BEGIN "):
				inKill = false
				curProg = strings.TrimPrefix(l, "#BEGIN ")
				continue
			case strings.HasPrefix(l, "#KILL"):
				inKill = true
				continue
			}
			if !strings.HasPrefix(l, "WARNING: DATA RACE") {
				continue
			}
			// collect the block
			j := i + 1
			for j < len(lines) && !strings.HasPrefix(lines[j], "==================") {
				j++
			}
			block := lines[i:j]
			i = j
			total++
			if inKill {
				ignoredKill++
				continue
			}
			sides := raceSides(block)
			if len(sides) < 2 {
				continue
			}
			hasSod, hasShim := false, false
			var names []string
			for _, s := range sides[:2] {
				switch s.pkg {
				case "sod":
					hasSod = true
				case "shim":
					hasShim = true
				}
				names = append(names, s.pkg+":"+s.fn)
			}
			if !hasSod || hasShim {
				ignoredShim++
				continue
			}
			counted++
			sort.Strings(names)
			sig := prop + "|race|" + strings.Join(names, "|")
			if _, ok := m.viols[sig]; !ok {
				what := "data race reported by the Go race detector inside an explored schedule:\n" + strings.Join(block, "\n")
				if len(what) > 6000 {
					what = what[:6000] + "..."
				}
				m.viols[sig] = &violation{Sig: sig, What: what, More: []byte(fmt.Sprintf("%q", curProg))}
				m.order = append(m.order, sig)
			}
		}
	}
	m.counts["race_reports_total"] = int64(total)
	m.counts["race_reports_in_sod"] = int64(counted)
	m.counts["race_reports_ignored_shim_or_harness"] = int64(ignoredShim)
	m.counts["race_reports_ignored_unwinding"] = int64(ignoredKill)
}

type raceSide struct {
	pkg string // sod | harness | shim | other
	fn  string
}

// raceSides extracts, for each access of a report, the innermost frame that
// belongs to sod, the harness or a shim.
func raceSides(block []string) []raceSide {
	var sides []raceSide
	inAccess := false
	found := false
	for _, l := range block {
		t := strings.TrimSpace(l)
		isHeader := (strings.HasPrefix(t, "Write at") || strings.HasPrefix(t, "Read at") || strings.HasPrefix(t, "Previous write at") || strings.HasPrefix(t, "Previous read at") ||
			strings.HasPrefix(t, "Atomic write at") || strings.HasPrefix(t, "Atomic read at") || strings.HasPrefix(t, "Previous atomic"))
		if isHeader {
			if inAccess && !found {
				sides = append(sides, raceSide{"other", "?"})
			}
			inAccess, found = true, false
			continue
		}
		if strings.HasPrefix(t, "Goroutine ") {
			if inAccess && !found {
				sides = append(sides, raceSide{"other", "?"})
			}
			inAccess = false
			continue
		}
		if !inAccess || found || t == "" || strings.HasPrefix(t, "/") {
			continue
		}
		fn := t
		if k := strings.LastIndex(fn, "("); k > 0 {
			fn = fn[:k]
		}
		switch {
		case strings.HasPrefix(fn, "github.com/0xrawsec/sod/zzverif/"):
			sides = append(sides, raceSide{"shim", strings.TrimPrefix(fn, "github.com/0xrawsec/sod/zzverif/")})
			found = true
		case strings.HasPrefix(fn, "github.com/0xrawsec/sod."):
			sides = append(sides, raceSide{"sod", strings.TrimPrefix(fn, "github.com/0xrawsec/sod.")})
			found = true
		case strings.HasPrefix(fn, "main."):
			sides = append(sides, raceSide{"harness", strings.TrimPrefix(fn, "main.")})
			found = true
		}
	}
	if inAccess && !found {
		sides = append(sides, raceSide{"other", "?"})
	}
	return sides
}
