// Command check is the entry point of every registered check:
//
//	check <property> [--tier quick|thorough] [--replay file]
//
// It rewrites the current working tree of package sod (internal/rewrite), builds
// the harness against it with "go build -overlay", runs the worker shards,
// merges their reports, writes /verif/evidence/<id>.json and prints
// "VIOLATION property=<id> replay=<path>" for every violation that is not a
// listed known finding. Exit 0: held (or only known findings); 1: violation;
// 2: engine error (never a property verdict).
package main

import (
	"bufio"
	"bytes"
	"encoding/json"
	"fmt"
	"os"
	"os/exec"
	"path/filepath"
	"runtime"
	"sort"
	"strconv"
	"strings"
	"sync"
	"time"

	"verif/internal/rewrite"
)

type violation struct {
	Sig  string          `json:"sig"`
	What string          `json:"what"`
	Cfg  json.RawMessage `json:"cfg,omitempty"`
	Path json.RawMessage `json:"path,omitempty"`
	More json.RawMessage `json:"more,omitempty"`
}

type line struct {
	T      string                 `json:"t"`
	Counts map[string]int64       `json:"counts,omitempty"`
	Key    string                 `json:"key,omitempty"`
	Keys   []uint64               `json:"keys,omitempty"`
	Sample json.RawMessage        `json:"sample,omitempty"`
	Viol   *violation             `json:"viol,omitempty"`
	Meta   map[string]interface{} `json:"meta,omitempty"`
	Msg    string                 `json:"msg,omitempty"`
}

type finding struct {
	Property  string `json:"property"`
	Signature string `json:"signature"`
	Status    string `json:"status"` // known | fixed
	Commit    string `json:"commit,omitempty"`
	What      string `json:"what"`
}

type propSpec struct {
	race     bool
	workers  int
	budgetQ  time.Duration // per-worker internal deadline, quick
	budgetT  time.Duration // thorough
	level    string
	assume   []string
	raceFree bool // additionally run the free-running race pass
	// untouched: run the "untouched" phase first (harness linked with the unrewritten package)
	untouched bool
}

var verifDir = "/verif"

// outDir is where evidence/ and replays/ are written (VERIF_EVIDENCE_DIR
// redirects both for runs against scratch trees).
var outDir = "/verif"

func die(code int, format string, a ...interface{}) {
	fmt.Fprintf(os.Stderr, "check: "+format+"\n", a...)
	os.Exit(code)
}

func goEnv() []string {
	env := os.Environ()
	env = append(env, "GOFLAGS=-mod=mod", "GOPROXY=off", "GOSUMDB=off", "GOTOOLCHAIN=local", "CGO_ENABLED=1")
	return env
}

func main() {
	if len(os.Args) < 2 {
		die(2, "usage: check <property> [--tier quick|thorough] [--replay file]")
	}
	prop := strings.ToUpper(os.Args[1])
	tier := os.Getenv("VERIF_TIER")
	replay := ""
	keep := false
	for i := 2; i < len(os.Args); i++ {
		switch os.Args[i] {
		case "--tier":
			i++
			tier = os.Args[i]
		case "--replay":
			i++
			replay = os.Args[i]
		case "--keep":
			keep = true
		}
	}
	if tier == "" {
		tier = "quick"
	}
	if tier != "quick" && tier != "thorough" {
		die(2, "bad tier %q", tier)
	}
	seed, _ := strconv.ParseInt(os.Getenv("VERIF_SEED"), 10, 64)
	repo := os.Getenv("VERIF_REPO")
	if repo == "" {
		repo = "/repo"
	}
	if d := os.Getenv("VERIF_DIR"); d != "" {
		verifDir = d
		outDir = d
	}
	if d := os.Getenv("VERIF_EVIDENCE_DIR"); d != "" {
		outDir = d
	}
	spec, ok := specs[prop]
	if !ok {
		if strings.HasPrefix(prop, "SELF") {
			spec = propSpec{level: "model_checking", untouched: true}
		} else {
			die(2, "unknown property %s", prop)
		}
	}
	start := time.Now()
	// replay artefacts of earlier runs of this property are stale
	if old, _ := filepath.Glob(filepath.Join(outDir, "replays", prop+"-*.json")); replay == "" {
		for _, f := range old {
			os.Remove(f)
		}
	}

	scratch, err := os.MkdirTemp("", "verif-"+prop+"-")
	if err != nil {
		die(2, "mktemp: %v", err)
	}
	if !keep {
		defer os.RemoveAll(scratch)
	}
	exit := run(prop, tier, seed, repo, replay, scratch, spec, start)
	if !keep {
		os.RemoveAll(scratch)
	}
	os.Exit(exit)
}

func build(repo, scratch string, race bool) (string, *rewrite.Result, error) {
	return buildVariant(repo, scratch, race, false)
}

// buildVariant: untouched = link the harness against the UNREWRITTEN package sod
// (overlay adds the shim packages only, so that the harness still compiles).
func buildVariant(repo, scratch string, race, untouched bool) (string, *rewrite.Result, error) {
	os.Setenv("GOFLAGS", "-mod=mod")
	os.Setenv("GOPROXY", "off")
	os.Setenv("GOSUMDB", "off")
	os.Setenv("GOTOOLCHAIN", "local")
	res, err := rewrite.Run(repo, filepath.Join(verifDir, "shim"), scratch, nil)
	if err != nil {
		return "", nil, err
	}
	bin := filepath.Join(scratch, "harness")
	ov := res.Overlay
	if untouched {
		bin += "-untouched"
		ov = res.OverlayShimsOnly
	}
	args := []string{"build", "-overlay", ov, "-tags", "verif", "-o", bin}
	if race {
		bin += "-race"
		args = []string{"build", "-race", "-overlay", ov, "-tags", "verif", "-o", bin}
	}
	if repo != "/repo" {
		// the harness module replaces sod by /repo: build with an alternate go.mod
		// that points at the other tree (used to run checks on scratch copies)
		gm, err := os.ReadFile(filepath.Join(verifDir, "go.mod"))
		if err != nil {
			return "", nil, err
		}
		alt := strings.Replace(string(gm), "=> /repo", "=> "+repo, 1)
		modfile := filepath.Join(scratch, "go.mod")
		if err := os.WriteFile(modfile, []byte(alt), 0644); err != nil {
			return "", nil, err
		}
		if gs, err := os.ReadFile(filepath.Join(verifDir, "go.sum")); err == nil {
			os.WriteFile(filepath.Join(scratch, "go.sum"), gs, 0644)
		}
		args = append(args[:1], append([]string{"-modfile", modfile}, args[1:]...)...)
	}
	args = append(args, "./harness")
	cmd := exec.Command("go", args...)
	cmd.Dir = verifDir
	cmd.Env = goEnv()
	out, err := cmd.CombinedOutput()
	if err != nil {
		return "", res, fmt.Errorf("go build failed: %v\n%s", err, out)
	}
	return bin, res, nil
}

type merged struct {
	mu      sync.Mutex
	counts  map[string]int64
	keys    map[string]map[uint64]struct{}
	samples []json.RawMessage
	viols   map[string]*violation
	order   []string
	meta    map[string]interface{}
	done    int
	races   []string
}

func (m *merged) add(l *line) {
	m.mu.Lock()
	defer m.mu.Unlock()
	switch l.T {
	case "counts":
		for k, v := range l.Counts {
			if strings.HasPrefix(k, "max:") {
				if v > m.counts[k] {
					m.counts[k] = v
				}
			} else {
				m.counts[k] += v
			}
		}
	case "keys":
		s := m.keys[l.Key]
		if s == nil {
			s = map[uint64]struct{}{}
			m.keys[l.Key] = s
		}
		for _, k := range l.Keys {
			s[k] = struct{}{}
		}
	case "sample":
		if len(m.samples) < 6 {
			m.samples = append(m.samples, l.Sample)
		}
	case "viol":
		if _, ok := m.viols[l.Viol.Sig]; !ok {
			m.viols[l.Viol.Sig] = l.Viol
			m.order = append(m.order, l.Viol.Sig)
		}
	case "meta":
		for k, v := range l.Meta {
			m.meta[k] = v
		}
	case "done":
		m.done++
	}
}

func run(prop, tier string, seed int64, repo, replay, scratch string, spec propSpec, start time.Time) int {
	bin, rw, err := build(repo, scratch, false)
	if err != nil {
		fmt.Fprintf(os.Stderr, "check: engine error: %v\n", err)
		return 2
	}
	type phase struct {
		bin  string
		name string
		race bool
	}
	phases := []phase{{bin, "", false}}
	if spec.race {
		rbin, _, err := build(repo, scratch, true)
		if err != nil {
			fmt.Fprintf(os.Stderr, "check: engine error: %v\n", err)
			return 2
		}
		// the same programs twice: under the race detector (few deviations), then
		// without it for the deeper linearizability exploration
		phases = []phase{{rbin, "race", true}, {bin, "lin", false}}
	}
	if spec.untouched {
		ubin, _, err := buildVariant(repo, scratch, false, true)
		if err != nil {
			fmt.Fprintf(os.Stderr, "check: engine error: %v\n", err)
			return 2
		}
		// first the untouched package on a real directory, then the shimmed build compares
		phases = []phase{{ubin, "untouched", false}, {bin, "compare", false}}
	}
	workers := spec.workers
	if workers <= 0 {
		workers = runtime.NumCPU()
	}
	if replay != "" {
		workers = 1
	}
	budget := spec.budgetQ
	if tier == "thorough" {
		budget = spec.budgetT
	}
	m := &merged{counts: map[string]int64{}, keys: map[string]map[uint64]struct{}{}, viols: map[string]*violation{}, meta: map[string]interface{}{}}
	var wg sync.WaitGroup
	engineErr := make(chan string, 2*workers+2)
	for _, ph := range phases {
		ph := ph
		for i := 0; i < workers; i++ {
			wg.Add(1)
			go func(i int) {
				defer wg.Done()
				args := []string{"-prop", prop, "-tier", tier, "-shard", strconv.Itoa(i), "-nshards", strconv.Itoa(workers), "-seed", strconv.FormatInt(seed, 10)}
				if budget > 0 {
					args = append(args, "-budget", budget.String())
				}
				if replay != "" {
					args = append(args, "-replay", replay)
				}
				cmd := exec.Command(ph.bin, args...)
				cmd.Dir = verifDir
				cmd.Env = append(os.Environ(), "VERIF_PHASE="+ph.name, "VERIF_SCRATCH="+scratch, "GOMAXPROCS=1", "GORACE=halt_on_error=0 exitcode=0 history_size=2", "GOTRACEBACK=all")
				stdout, _ := cmd.StdoutPipe()
				var stderr bytes.Buffer
				cmd.Stderr = &stderr
				if err := cmd.Start(); err != nil {
					engineErr <- fmt.Sprintf("worker %d: %v", i, err)
					return
				}
				sc := bufio.NewScanner(stdout)
				sc.Buffer(make([]byte, 1<<20), 1<<28)
				sawDone := false
				for sc.Scan() {
					var l line
					if err := json.Unmarshal(sc.Bytes(), &l); err != nil {
						engineErr <- fmt.Sprintf("worker %d: bad line: %v", i, err)
						continue
					}
					if l.T == "done" {
						sawDone = true
					}
					m.add(&l)
				}
				err := cmd.Wait()
				if os.Getenv("VERIF_DEBUG") != "" {
					for _, l := range strings.Split(stderr.String(), "\n") {
						if strings.HasPrefix(l, "#DEBUG") {
							fmt.Fprintln(os.Stderr, l)
						}
					}
				}
				if ph.race {
					m.mu.Lock()
					m.races = append(m.races, stderr.String())
					m.mu.Unlock()
				}
				if err != nil || !sawDone {
					tail := stderr.String()
					if len(tail) > 4000 {
						tail = tail[len(tail)-4000:]
					}
					engineErr <- fmt.Sprintf("worker %d failed: %v (done=%v)\n%s", i, err, sawDone, tail)
				}
			}(i)
		}
		wg.Wait()
	}
	close(engineErr)
	bad := false
	for e := range engineErr {
		fmt.Fprintln(os.Stderr, "check: engine error:", e)
		bad = true
	}
	if bad {
		return 2
	}
	if spec.race {
		collectRaces(prop, m)
	}

	// classify violations against the known-findings file
	known := loadFindings()
	exit := 0
	nviol := 0
	var knownHit []string
	sort.Strings(m.order)
	for _, sig := range m.order {
		v := m.viols[sig]
		if f := matchFinding(known, prop, sig); f != nil {
			fmt.Printf("KNOWN-FINDING: property=%s %s [%s]\n", prop, f.What, sig)
			knownHit = append(knownHit, sig)
			continue
		}
		nviol++
		path := writeReplay(prop, sig, v)
		fmt.Printf("VIOLATION property=%s replay=%s\n", prop, path)
		fmt.Printf("  signature: %s\n  %s\n", sig, strings.ReplaceAll(v.What, "\n", "\n  "))
		exit = 1
	}
	if replay != "" {
		// a replay re-executes one recorded case: it does not describe the coverage of a check
		fmt.Printf("%s replay of %s: reproduced=%v\n", prop, replay, nviol+len(knownHit) > 0)
		return exit
	}
	if err := writeEvidence(prop, tier, seed, spec, m, rw, nviol, knownHit, time.Since(start)); err != nil {
		fmt.Fprintf(os.Stderr, "check: cannot write evidence: %v\n", err)
		return 2
	}
	if os.Getenv("VERIF_VERBOSE") != "" || strings.HasPrefix(prop, "SELF") {
		var ks []string
		for k := range m.counts {
			ks = append(ks, k)
		}
		sort.Strings(ks)
		for _, k := range ks {
			fmt.Printf("  %s=%d\n", k, m.counts[k])
		}
	}
	states := len(m.keys["states"])
	fmt.Printf("%s %s: states=%d transitions=%d evaluations=%d violations=%d known=%d wall=%.1fs\n",
		prop, tier, states, m.counts["transitions"], m.counts["evaluations"], nviol, len(knownHit), time.Since(start).Seconds())
	return exit
}

func loadFindings() []finding {
	data, err := os.ReadFile(filepath.Join(verifDir, "known_findings.json"))
	if err != nil {
		return nil
	}
	var doc struct {
		Findings []finding `json:"findings"`
	}
	if err := json.Unmarshal(data, &doc); err != nil {
		die(2, "known_findings.json: %v", err)
	}
	return doc.Findings
}

func matchFinding(fs []finding, prop, sig string) *finding {
	for i := range fs {
		f := &fs[i]
		if f.Status == "known" && f.Property == prop && f.Signature == sig {
			return f
		}
	}
	return nil
}

func sanitize(s string) string {
	var b strings.Builder
	for _, r := range s {
		switch {
		case r >= 'a' && r <= 'z', r >= 'A' && r <= 'Z', r >= '0' && r <= '9', r == '-', r == '_':
			b.WriteRune(r)
		default:
			b.WriteByte('_')
		}
	}
	out := b.String()
	if len(out) > 80 {
		out = out[:80]
	}
	return out
}

func writeReplay(prop, sig string, v *violation) string {
	dir := filepath.Join(outDir, "replays")
	os.MkdirAll(dir, 0755)
	path := filepath.Join(dir, prop+"-"+sanitize(strings.TrimPrefix(sig, prop+"|"))+".json")
	doc := map[string]interface{}{"property": prop, "signature": sig, "what": v.What, "cfg": v.Cfg, "path": v.Path, "more": v.More}
	data, _ := json.MarshalIndent(doc, "", " ")
	os.WriteFile(path, data, 0644)
	return path
}

func writeEvidence(prop, tier string, seed int64, spec propSpec, m *merged, rw *rewrite.Result, nviol int, known []string, wall time.Duration) error {
	cov := map[string]interface{}{}
	for k, v := range m.counts {
		cov[strings.TrimPrefix(k, "max:")] = v
	}
	for k, s := range m.keys {
		if k == "states" || k == "distinct_nontrivial" {
			continue
		}
		cov["distinct_"+k] = len(s)
	}
	states := len(m.keys["states"])
	if states == 0 {
		states = int(m.counts["states"])
	}
	cov["states"] = states
	if _, ok := cov["transitions"]; !ok {
		cov["transitions"] = int64(0)
	}
	if _, ok := cov["evaluations"]; !ok {
		cov["evaluations"] = m.counts["transitions"]
	}
	nt := len(m.keys["distinct_nontrivial"])
	if nt == 0 {
		nt = int(m.counts["distinct_nontrivial"])
	}
	cov["distinct_nontrivial"] = nt
	if _, ok := cov["traces_validated_against_impl"]; !ok {
		// every explored path is executed on the implementation and compared step by step with the model
		cov["traces_validated_against_impl"] = m.counts["paths_replayed"]
	}
	samples := make([]interface{}, 0, len(m.samples))
	for _, s := range m.samples {
		samples = append(samples, s)
	}
	if len(samples) == 0 {
		samples = append(samples, "no sample emitted")
	}
	cov["samples"] = samples
	capHit := m.counts["cap_hit"] > 0 || m.counts["depth_incomplete"] > 0
	cov["exhaustive"] = !capHit
	cov["cap_hit"] = capHit
	for k, v := range m.meta {
		cov[k] = v
	}
	if rw != nil {
		cov["rewriter"] = map[string]interface{}{"map_ranges_owned": rw.MapRanges, "go_statements_owned": rw.GoStmts, "lock_sites": len(rw.LockSites), "warnings": rw.Warnings}
	}
	cov["known_findings_hit"] = known
	assume := append([]string{
		"environment models (in-memory file system, RWMutex model, virtual clock) are trusted after the conformance self-tests run by setup_cmd",
		"bounded: only histories/schedules/inputs inside the stated alphabet and bounds are covered",
	}, spec.assume...)
	if a, ok := m.meta["assumptions"].([]interface{}); ok {
		for _, x := range a {
			assume = append(assume, fmt.Sprint(x))
		}
		delete(cov, "assumptions")
	}
	ev := map[string]interface{}{
		"property_id": prop,
		"tier":        tier,
		"seed":        seed,
		"level":       spec.level,
		"coverage":    cov,
		"assumptions": assume,
		"wall_s":      wall.Seconds(),
		"violations":  nviol,
	}
	data, err := json.MarshalIndent(ev, "", " ")
	if err != nil {
		return err
	}
	if strings.HasPrefix(prop, "SELF") {
		return nil
	}
	os.MkdirAll(filepath.Join(outDir, "evidence"), 0755)
	return os.WriteFile(filepath.Join(outDir, "evidence", prop+".json"), data, 0644)
}

func collectRaces(prop string, m *merged) {
	// filled in by the race-report parser (race.go)
	parseRaces(prop, m)
}
