package main

import "time"

var specs = map[string]propSpec{
	"C01": {level: "model_checking", budgetQ: 4 * time.Minute, budgetT: 40 * time.Minute},
}
