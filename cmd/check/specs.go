package main

import "time"

var specs = map[string]propSpec{
	"C01":       {level: "model_checking", budgetQ: 4 * time.Minute, budgetT: 40 * time.Minute},
	"C02":       {level: "model_checking", budgetQ: 6 * time.Minute, budgetT: 75 * time.Minute},
	"C04":       {level: "model_checking", budgetQ: 4 * time.Minute, budgetT: 40 * time.Minute},
	"C12":       {level: "model_checking", budgetQ: 6 * time.Minute, budgetT: 90 * time.Minute},
	"C13":       {level: "model_checking", budgetQ: 6 * time.Minute, budgetT: 60 * time.Minute},
	"C20":       {level: "model_checking", budgetQ: 4 * time.Minute, budgetT: 40 * time.Minute},
	"C07":       {level: "model_checking", budgetQ: 6 * time.Minute, budgetT: 60 * time.Minute},
	"C06":       {level: "model_checking", budgetQ: 8 * time.Minute, budgetT: 75 * time.Minute},
	"C15":       {level: "model_checking", budgetQ: 4 * time.Minute, budgetT: 40 * time.Minute},
	"C16":       {level: "model_checking", budgetQ: 4 * time.Minute, budgetT: 40 * time.Minute},
	"C14":       {level: "model_checking", budgetQ: 4 * time.Minute, budgetT: 40 * time.Minute},
	"C05":       {level: "model_checking", budgetQ: 4 * time.Minute, budgetT: 40 * time.Minute},
	"C11":       {level: "model_checking", budgetQ: 4 * time.Minute, budgetT: 40 * time.Minute},
	"C19":       {level: "model_checking", budgetQ: 4 * time.Minute, budgetT: 40 * time.Minute},
	"C09":       {level: "model_checking", budgetQ: 6 * time.Minute, budgetT: 90 * time.Minute},
	"C08":       {level: "model_checking", race: true, budgetQ: 10 * time.Minute, budgetT: 45 * time.Minute},
	"C10":       {level: "model_checking", budgetQ: 4 * time.Minute, budgetT: 40 * time.Minute},
	"C17":       {level: "model_checking", budgetQ: 4 * time.Minute, budgetT: 40 * time.Minute},
	"C18":       {level: "model_checking", budgetQ: 4 * time.Minute, budgetT: 40 * time.Minute},
	"GOLDENGEN": {level: "model_checking", workers: 1},
	"C03":       {level: "model_checking", budgetQ: 6 * time.Minute, budgetT: 60 * time.Minute},
}
