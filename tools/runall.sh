#!/bin/sh
# runs every claimed quick (or $1) check against /repo and prints one line each
cd /verif
tier=${1:-quick}
for p in $(python3 -c "import json;print(' '.join(c['property_id'] for c in json.load(open('MANIFEST.json'))['checks']))"); do
  s=$(date +%s)
  out=$(./bin/check $p --tier $tier 2>&1); rc=$?
  e=$(date +%s)
  echo "$p rc=$rc $((e-s))s $(echo "$out" | grep -cE '^VIOLATION') viol $(echo "$out" | grep -cE '^KNOWN-FINDING') known :: $(echo "$out" | tail -1 | cut -c1-120)"
done
