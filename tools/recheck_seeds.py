#!/usr/bin/env python3
"""Re-runs every kept seeded change against the checks recorded as catching it
(meta.json caught_by) on the current /repo HEAD and reports the ones no longer caught.
  recheck_seeds.py [prefix]     e.g. recheck_seeds.py C05
Patches that no longer apply to HEAD are reported as STALE."""
import json, os, subprocess, sys, glob
ENV = dict(os.environ, GOFLAGS="-mod=mod", GOPROXY="off", GOSUMDB="off", GOTOOLCHAIN="local")
def sh(cmd, cwd=None, timeout=3600):
    p = subprocess.run(cmd, shell=True, cwd=cwd, env=ENV, stdout=subprocess.PIPE, stderr=subprocess.STDOUT, text=True, timeout=timeout)
    return p.returncode, p.stdout
prefix = sys.argv[1] if len(sys.argv) > 1 else ""
tag = prefix or "all"
bad = []
for m in sorted(glob.glob("/verif/seeded/*/meta.json")):
    sid = os.path.basename(os.path.dirname(m))
    if not sid.startswith(prefix):
        continue
    d = json.load(open(m))
    wt = "/tmp/wt-recheck-" + tag
    sh(f"git -C /repo worktree remove --force {wt}")
    sh(f"git -C /repo worktree add --detach {wt} HEAD")
    rc, out = sh(f"git -C {wt} apply /verif/seeded/{sid}/patch.diff")
    if rc != 0:
        rc, out = sh(f"patch -p1 --fuzz=3 < /verif/seeded/{sid}/patch.diff", cwd=wt)
    if rc != 0:
        print(sid, "STALE (patch does not apply)"); bad.append(sid); continue
    res = {}
    for chk in d.get("caught_by", []):
        if chk in ("C08",) and len(d["caught_by"]) > 1:
            continue  # slow; another check vouches for it
        rc, out = sh(f"VERIF_REPO={wt} VERIF_EVIDENCE_DIR=/tmp/ev-recheck-{tag} ./bin/check {chk} --tier quick", cwd="/verif")
        res[chk] = rc
    ok = any(v == 1 for v in res.values())
    print(sid, res, "OK" if ok else "NOT CAUGHT", flush=True)
    if not ok:
        bad.append(sid)
sh(f"git -C /repo worktree remove --force /tmp/wt-recheck-{tag}")
print("not caught / stale:", bad)
