#!/usr/bin/env python3
"""Generates /verif/MANIFEST.json from the table below (kept in one place so the
manifest stays valid while checks are added)."""
import json, sys, os

CLAIMED = {
 "C01": dict(engine="E1", technique="explicit-state BFS over API histories on the real code vs reference map",
   text="Bounded exhaustive refinement check: every call history up to the stated depth over a collision-forcing alphabet, under 8 storage configurations, is executed on the real package (over the in-memory file system) and compared step by step with a reference map; complete read sweep after every history. Also: histories with live cache/async settings switches, and histories on two collections created from one Schema value.",
   note="Bounded by alphabet, depth and <=3 live objects; file system, clock and uuid generator are models owned by the harness (DESIGN 2.3).", ref="6/C01"),
 "C02": dict(engine="E1", technique="explicit-state BFS; exhaustive query sweep per state vs linear-scan reference",
   text="In every state reached by BFS over a contents alphabet (ties, in-place updates, deletions, reloads) every field path x operator x probe and all And/Or trees over an atom menu are evaluated on the real index code and compared with a linear scan of the reference model; queries must leave the handle state unchanged. Scale ladders: every insertion sequence over three values up to length 6 (8) with the full operator x probe sweep after every step; unions/refinements built from one search for every result size up to 40; collections of 150-1100 objects.",
   note="Probe values come from per-type tables with extremes, not the whole 64-bit domain; NaN excluded.", ref="6/C02"),
 "C03": dict(engine="E1", technique="explicit-state BFS over key-collision histories vs reference",
   text="Every history up to the depth over an alphabet specialised to unique-key collisions (case variants, values differing beyond 2^53, released keys, batches, reopen/abandon) decides accept/reject exactly like the reference, in both directions, and the pairwise-distinct invariant holds in every reached state. Three more configurations declare a third unique field (unsigned, float, time). Scale ladder: every insertion order of 5 (7) unique keys (incl. 300-byte strings differing in their last bytes) with every key offered again after every step.",
   note="Two unique fields (string+upper, int64); 5 key classes.", ref="6/C03"),
 "C04": dict(engine="E1", technique="explicit-state BFS; differential observation before/after reopen in every state",
   text="In every reached state the complete observation vector (reads, all searches with order, AssignIndex, And/Or pairs) is compared before and after Close+Open, and in synchronous configurations after abandoning the handle; reopen is also an alphabet letter so later calls keep refining the reference. Also: compatible re-creation with another compression flag as a letter; one object with a field of up to 1 MiB (3 MiB, one of 33 MiB compressed) through every read path and Repair.",
   note="Value tables include 2^53+1, MaxInt64, MaxUint64 and ns timestamps.", ref="6/C04"),
 "C12": dict(engine="E1", technique="exhaustive history enumeration; differential between configurations",
   text="Every history up to the depth is executed under the reference configuration and under every other configuration (quick: pairwise-covering 7, thorough: full product) and the normalised observation vectors, including error outcomes of ill-formed queries and Exist, must be identical.",
   note="Result order is ignored (an index may change order).", ref="6/C12"),
 "C13": dict(engine="E1", technique="explicit-state BFS; exhaustive ordered-query menu per state",
   text="In every reached state every single comparison and And-chain ending on an indexed field is checked for order, Reverse, all interesting Limits, One and terminal-call independence, plus AssignIndex for every indexed field. Scale ladders: every insertion sequence over three values up to length 5 (7) and collections of 150-1100 objects (limits around internal buffer sizes).",
   note="Ties are produced by the value classes; tie order itself is not constrained.", ref="6/C13"),
 "C20": dict(engine="E1", technique="explicit-state BFS x query menu x all write sequences <= 2",
   text="For every reached state, every query of the menu is evaluated and kept while every write sequence of length <= 2 is applied; Collect/Assign/One/Len on the kept value may only yield objects matched at evaluation time, once each. Scale ladder: kept search values with 1..24 (70) results x six rewriting scripts.",
   note="Write sequences of length <= 2; depth of the base state as stated in evidence.", ref="6/C20"),
 "C05": dict(engine="E3", technique="exhaustive crash-point and torn-write enumeration over the recorded file-operation log of every history",
   text="Every history up to the depth is executed on the real write path over the logging file system; for every prefix of the mutation log of its last call (and 3 cut positions inside every write) the tree is materialised and a recovery protocol (Open, first load, agreement of index and independently decoded files, Repair, Control, old-or-new per object) is evaluated.",
   note="Process-crash model (completed system calls persist in order) plus torn single writes; no reordering. One root cause (stale index entry after an interrupted update) is a known finding.", ref="6/C05", level="model_checking"),
 "C06": dict(engine="E1+E3", technique="explicit-state BFS x rejection menu x follow-up letters; single-fault enumeration over file operations",
   text="On every reached state every rejecting call of an 18-entry menu must fail with its class and leave the ordered observation vector and the files identical, and every alphabet call afterwards must still refine the reference; storage faults: every file operation of the last call of every short history fails once. (the menu now has 18 entries, incl. collisions visible only after case canonicalisation and updates colliding inside one batch.)",
   note="One fault per execution; Close errors are not injected.", ref="6/C06"),
 "C07": dict(engine="E1", technique="explicit-state BFS x exhaustive batch enumeration",
   text="On every base state every batch up to the size bound over a 10-member menu (plus same-pointer members) at every position goes through InsertOrUpdateMany and through InsertOrUpdateBulk with every chunk size; (n, err) must equal the reference fold, failed batches leave no trace. Scale ladder: batches of 5..12 members with one offender of four kinds at every position through every chunk size.",
   note="Batch size <= 2 (quick) / 3 (thorough); chunk sizes 0..4.", ref="6/C07"),
 "C11": dict(engine="E4", technique="exhaustive enumeration of fault assignments on every base database",
   text="Every assignment of {intact, file removed, index entries removed, both} to each object x extra files x schema removed, on every base database and configuration; detection iff id sets differ, Repair restores agreement without touching object files; partial (internally inconsistent) removals must be reported. Also: Repair on live handles holding pending asynchronous writes; the collection directory removed under a live handle; intact collections of 63..4095 objects.",
   note="Fault assignments on base databases with <= 3 objects; the big-collection part goes to 4095.", ref="6/C11"),
 "C14": dict(engine="E4", technique="exhaustive enumeration of object shapes x mutation points x storage modes",
   text="Every shape (singles and pairs of 11 container fields nil/empty/non-empty; thorough: all 3^6 fillings of pointer-bearing fields) is stored under 5 storage modes; each of 18 mutators is applied to the caller's object and to returned objects; every read path must keep returning the accepted value; reflection walk for shared memory. (20 container fields down to three levels of nesting, 801 shapes, 28 mutators.)",
   note="Strings and unexported fields are skipped as documented.", ref="6/C14"),
 "C15": dict(engine="E1", technique="exhaustive scenario enumeration with a hook recorder",
   text="Every insertion entry point x offender position x pre-state x name class x configuration with a type whose validity depends on hook order; the recorder hashes the whole handle and counts file mutations inside every hook call. Calls on the same and on a re-opened handle; offender invalid or made unserialisable by its own Transform; seven constrained fields (tag orders, named string type, deep and pointer-nested paths, a constraint declared by a custom schema only).",
   note="Batch size <= 3.", ref="6/C15"),
 "C16": dict(engine="E4", technique="exhaustive enumeration of all code points and short strings; per-string database scenario",
   text="All 1 112 064 Unicode scalar values and all strings up to the length bound over a case-folding-hostile alphabet go through the real constraint code (mapping and idempotence); each string is stored at every constrained path and searched with case variants and neighbours; uniqueness on canonical values. Constraints down to six path components; every condition also as And/Or refinement; a three-option tag.",
   note="Valid UTF-8 only; strings of length <= 2 (quick) / 3 (thorough).", ref="6/C16"),
 "C19": dict(engine="E4", technique="exhaustive enumeration of single file mutations, stray entries and argument triples",
   text="For every base database every truncation, every single-byte substitution from a 12-byte set, every single JSON-tree mutation of schema.json and of every object file, stray files and directories, and 23 x 11 x 26 search argument triples are enumerated; each case runs the whole public call set on a fresh handle under recover: no panic, no hang, no objects from a failed search. (mutations now include exchanged array elements; the call set updates and deletes every object the directory names; 32 field paths x 19 operator spellings x 26 value kinds x limits x terminal operations; paths that designate no field must fail.)",
   note="One mutation per file (thorough: pairs inside the index subtree); hang = 30 s wall watchdog.", ref="6/C19"),
 "C09": dict(engine="E2", technique="stateless deviation-bounded schedule exploration of the real code; deadlock oracle",
   text="For every exported entry point against a write-lock taker (and further partners), warm and cold handles, sync and async configurations, every schedule with at most the stated number of deviations is executed on the real code under a cooperative scheduler with an exact writer-preferring RWMutex model; no reachable state may have unfinished threads and none enabled. Also on collections holding a missing or garbled object file, and on collections of 33-130 objects walked against a writer.",
   note="2-3 threads, 1-2 calls each, deviation bound 1-2 (quick) / 3 (thorough); scheduling points at lock acquisitions, context checks, sleeps.", ref="6/C09"),
 "C08": dict(engine="E2", technique="stateless deviation-bounded schedule exploration under the race detector + brute-force linearizability check",
   text="Every (reader or refinement, writer) pair plus writer/writer, reader/reader and two-call programs, warm and cold, in sync, cached and async configurations: every schedule within the deviation bound is executed on the real code, once built with -race (hand-off invisible to the detector, lock grants mirrored on real mutexes; reports attributed to package sod are violations) and once without for a deeper bound, where the recorded history plus final state must be explained by a sequential order on the reference that respects real-time order.",
   note="2-3 threads x 1-2 calls; race phase bound 1 (quick) / 2; linearizability phase bound 2 (1 with the flusher on quick) / 3. Control/Repair while writes are pending are outside the statement and not scheduled in async configurations.", ref="6/C08"),
 "C10": dict(engine="E1+E2", technique="explicit-state BFS with clock-tick events + schedule/tick-placement exploration under a virtual clock",
   text="Histories with explicit clock ticks under three threshold/timeout settings: visibility after every call, barriers (FlushAll, FlushAllAndCommit, Close) checked against files decoded without sod code and against a second handle, deadlines checked by advancing only the virtual clock from every reached state; plus client programs against the background writer over all schedules and tick placements within the deviation bound (deleted-never-on-disk, completeness at Close, no panic). Scale ladders: every history of length 6 (8) over {insert, update, delete, clock step} x thresholds x timeouts with per-version deadlines; two collections created from one Schema value; thousands of pending writes at a barrier.",
   note="Virtual time: nothing is claimed about wall-clock accuracy of time.Sleep; single client thread in the timing programs.", ref="6/C10"),
 "C17": dict(engine="E4+E1+E2", technique="exhaustive enumeration of struct-shape pairs x operations; BFS with settings letters; schedule exploration of settings changes against the flusher",
   text="All ordered pairs over 12 struct variants sharing package and type name x {0,2} objects x 21 operations (first and later) with the pair class computed by an independent reflection walk: structure change => ErrStructureChanged and byte-identical files; constraint / extension change => Create refused; compatible => data preserved. Create with every cache/async combination as alphabet letters in BFS histories with pending writes, and as client calls against the running background writer over all schedules within 2 deviations. (18 shapes incl. repeated nested types, lower/upper tag changes, a field five components deep.) Refused re-creations on a handle with pending writes touch nothing; settings switch with thousands of pending writes.",
   note="12 shape variants; settings histories to depth 3 (quick) / 4.", ref="6/C17"),
 "C18": dict(engine="E1+corpus", technique="explicit-state BFS with an independent layout walk in every state; replay of a golden corpus written by the pinned release",
   text="In every state reached by BFS under 11 configurations an independent walk (no sod code) checks directory name, file set and names, gzip, plain-JSON content under the Go field names and the persistent schema.json format including exact 64-bit index tuples; every directory of the committed corpus written by the pinned commit (900 distinct final states x 12 configurations) is opened by the current code, swept, written to, closed, reopened and walked again. Directory names of 11 awkward type names and the field descriptors of awkward shapes are compared with tables recorded from the pinned release; collections without extension and with extensions ending in .gz.",
   note="One other version (the pinned commit) and one independent decoder (encoding/json + gzip).", ref="6/C18"),
}

NOT_YET = {}

def main():
    props = [json.loads(l) for l in open("/verif/properties.jsonl")]
    checks, na = [], []
    for p in props:
        pid = p["id"]
        if pid in CLAIMED:
            c = CLAIMED[pid]
            checks.append({
                "property_id": pid,
                "quick_cmd": f"bin/check {pid} --tier quick",
                "thorough_cmd": f"bin/check {pid} --tier thorough",
                "evidence_file": f"/verif/evidence/{pid}.json",
                "replay_cmd_template": f"bin/check {pid} --replay {{path}}",
                "engine": c["engine"],
                "level_claimed": {"category": c.get("level", "model_checking"), "text": c["text"], "design_ref": "DESIGN.md section " + c["ref"]},
                "level_note": c["note"],
                "technique": c["technique"],
            })
        else:
            na.append({"property_id": pid, "reason": NOT_YET.get(pid, "check not built yet in this round (planned: see DESIGN.md section 6); not a statement that model checking cannot apply")})
    m = {
        "version": 1,
        "setup_cmd": "./setup.sh",
        "hooks": {
            "guard": "verif",
            "enable": "no source hooks in /repo: each check rewrites a copy of the working tree (internal/rewrite) and builds it with go build -overlay -tags verif; shims under /verif/shim are overlaid as github.com/0xrawsec/sod/zzverif/*",
            "baseline_off_cmd": "cd /repo && go test -mod=mod -json -vet=off -count=1 -timeout 25m ./...",
            "source_commits": [],
            "add_only": True,
        },
        "engines": [
            {"name": "E1", "path": "harness/bfs.go", "serves_properties": [c for c in CLAIMED if CLAIMED[c]["engine"].startswith("E1")], "kind_free_text": "sequential explicit-state BFS over API histories on the real code, compared with a reference model"},
            {"name": "E2", "path": "harness/sched.go", "serves_properties": [c for c in CLAIMED if "E2" in CLAIMED[c]["engine"]], "kind_free_text": "stateless deviation-bounded schedule exploration of the real code under a cooperative scheduler (shim/vrt)"},
            {"name": "E3", "path": "harness/crash.go", "serves_properties": [c for c in CLAIMED if "E3" in CLAIMED[c]["engine"]], "kind_free_text": "crash-point / torn-write / single-fault enumeration over the recorded file-operation log (shim/vfs)"},
            {"name": "E4", "path": "harness/", "serves_properties": [c for c in CLAIMED if "E4" in CLAIMED[c]["engine"]], "kind_free_text": "exhaustive enumeration of finite input grammars"},
        ],
        "checks": checks,
        "not_applicable": na,
        "notes": "exit 0 held / 1 VIOLATION / 2 engine error. Known findings: /verif/known_findings.json.",
    }
    json.dump(m, open("/verif/MANIFEST.json", "w"), indent=1)
    print("claimed", len(checks), "not claimed", len(na))

main()
