#!/usr/bin/env python3
"""Generates /verif/MANIFEST.json from the table below (kept in one place so the
manifest stays valid while checks are added)."""
import json, sys, os

CLAIMED = {
 "C01": dict(engine="E1", technique="explicit-state BFS over API histories on the real code vs reference map",
   text="Bounded exhaustive refinement check: every call history up to the stated depth over a collision-forcing alphabet, under 8 storage configurations, is executed on the real package (over the in-memory file system) and compared step by step with a reference map; complete read sweep after every history.",
   note="Bounded by alphabet, depth and <=3 live objects; file system, clock and uuid generator are models owned by the harness (DESIGN 2.3).", ref="6/C01"),
}

NOT_YET = {}

def main():
    props = [json.loads(l) for l in open("/verif/properties.jsonl")]
    checks, na = [], []
    for p in props:
        pid = p["id"]
        if pid in CLAIMED:
            c = CLAIMED[pid]
            checks.append({
                "property_id": pid,
                "quick_cmd": f"bin/check {pid} --tier quick",
                "thorough_cmd": f"bin/check {pid} --tier thorough",
                "evidence_file": f"/verif/evidence/{pid}.json",
                "replay_cmd_template": f"bin/check {pid} --replay {{path}}",
                "engine": c["engine"],
                "level_claimed": {"category": c.get("level", "model_checking"), "text": c["text"], "design_ref": "DESIGN.md section " + c["ref"]},
                "level_note": c["note"],
                "technique": c["technique"],
            })
        else:
            na.append({"property_id": pid, "reason": NOT_YET.get(pid, "check not built yet in this round (planned: see DESIGN.md section 6); not a statement that model checking cannot apply")})
    m = {
        "version": 1,
        "setup_cmd": "./setup.sh",
        "hooks": {
            "guard": "verif",
            "enable": "no source hooks in /repo: each check rewrites a copy of the working tree (internal/rewrite) and builds it with go build -overlay -tags verif; shims under /verif/shim are overlaid as github.com/0xrawsec/sod/zzverif/*",
            "baseline_off_cmd": "cd /repo && go test -mod=mod -json -vet=off -count=1 -timeout 25m ./...",
            "source_commits": [],
            "add_only": True,
        },
        "engines": [
            {"name": "E1", "path": "harness/bfs.go", "serves_properties": [c for c in CLAIMED if CLAIMED[c]["engine"].startswith("E1")], "kind_free_text": "sequential explicit-state BFS over API histories on the real code, compared with a reference model"},
            {"name": "E2", "path": "harness/sched.go", "serves_properties": [c for c in CLAIMED if "E2" in CLAIMED[c]["engine"]], "kind_free_text": "stateless deviation-bounded schedule exploration of the real code under a cooperative scheduler (shim/vrt)"},
            {"name": "E3", "path": "harness/crash.go", "serves_properties": [c for c in CLAIMED if "E3" in CLAIMED[c]["engine"]], "kind_free_text": "crash-point / torn-write / single-fault enumeration over the recorded file-operation log (shim/vfs)"},
            {"name": "E4", "path": "harness/", "serves_properties": [c for c in CLAIMED if "E4" in CLAIMED[c]["engine"]], "kind_free_text": "exhaustive enumeration of finite input grammars"},
        ],
        "checks": checks,
        "not_applicable": na,
        "notes": "exit 0 held / 1 VIOLATION / 2 engine error. Known findings: /verif/known_findings.json.",
    }
    json.dump(m, open("/verif/MANIFEST.json", "w"), indent=1)
    print("claimed", len(checks), "not claimed", len(na))

main()
