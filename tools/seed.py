#!/usr/bin/env python3
"""Confirms a seeded change delivered by a sub-agent and runs the checks against it.

  seed.py import <agent_dir> <seed_id> <property> [checks...]

agent_dir holds patch.diff, demo_test.go, notes.md. Steps:
 1. scratch worktree of /repo HEAD under /tmp: demo passes without the patch;
    patch applies; package builds; the full existing suite passes with the patch;
    demo fails with the patch. Worktree removed afterwards.
 2. patch applied to /repo (git apply), the given checks (default: the property's
    quick check) run, /repo restored (git checkout -- .).
 3. /verif/seeded/<seed_id>/ gets patch.diff, demo_test.go, notes.md, meta.json.
"""
import json, os, shutil, subprocess, sys, time

ENV = dict(os.environ, GOFLAGS="-mod=mod", GOPROXY="off", GOSUMDB="off", GOTOOLCHAIN="local")

def sh(cmd, cwd=None, timeout=1800):
    p = subprocess.run(cmd, shell=True, cwd=cwd, env=ENV, stdout=subprocess.PIPE, stderr=subprocess.STDOUT, text=True, timeout=timeout)
    return p.returncode, p.stdout

def demo_path(agent_dir):
    p = os.path.join(agent_dir, "demo_test.go")
    return p if os.path.exists(p) else p + ".txt"

def extra_tests(agent_dir):
    """helper test files shipped with a demo (e.g. build-tagged race detection)"""
    out = []
    for f in sorted(os.listdir(agent_dir)):
        if f.endswith("_test.go") and f != "demo_test.go":
            out.append(f)
        if f.endswith("_test.go.txt") and f != "demo_test.go.txt":
            out.append(f)
    return out

def confirm(agent_dir, wt):
    res = {}
    sh(f"git -C /repo worktree remove --force {wt}")
    rc, out = sh(f"git -C /repo worktree add --detach {wt} HEAD")
    if rc != 0:
        raise SystemExit("worktree: " + out)
    try:
        extras = extra_tests(agent_dir)
        race = "-race " if extras else ""
        res["demo_flags"] = race.strip()
        def install():
            shutil.copy(demo_path(agent_dir), os.path.join(wt, "zz_seed_demo_test.go"))
            for f in extras:
                shutil.copy(os.path.join(agent_dir, f), os.path.join(wt, "zz_" + f.replace(".txt", "")))
        def uninstall():
            for f in os.listdir(wt):
                if f.startswith("zz_") and f.endswith("_test.go"):
                    os.remove(os.path.join(wt, f))
        install()
        rc, out = sh(f"go test {race}-vet=off -count=1 -run 'TestSeedDemo' .", cwd=wt)
        res["demo_passes_without_patch"] = rc == 0
        res["demo_without_tail"] = out[-600:]
        rc, out = sh(f"git apply {os.path.join(agent_dir, 'patch.diff')}", cwd=wt)
        if rc != 0:
            rc, out = sh(f"patch -p1 --fuzz=3 < {os.path.join(agent_dir, 'patch.diff')}", cwd=wt)
        res["patch_applies"] = rc == 0
        if rc != 0:
            res["apply_output"] = out[-800:]
            return res
        # patch as it applies to the current HEAD
        uninstall()
        rc, out = sh("git diff", cwd=wt)
        res["rebased_patch"] = out
        install()
        rc, out = sh("go build ./...", cwd=wt)
        res["builds"] = rc == 0
        rc, out = sh(f"go test {race}-vet=off -count=1 -run 'TestSeedDemo' .", cwd=wt)
        res["demo_fails_with_patch"] = rc != 0
        res["demo_with_tail"] = out[-600:]
        uninstall()
        rc, out = sh("go test -vet=off -count=1 -timeout 25m ./...", cwd=wt)
        if rc != 0 and "TestIndexAllTypes" in out and out.count("--- FAIL") == 1:
            # known flaky on the unchanged code (random data): one retry
            rc, out = sh("go test -vet=off -count=1 -timeout 25m ./...", cwd=wt)
            res["suite_retried_after_flaky_TestIndexAllTypes"] = True
        res["suite_passes_with_patch"] = rc == 0
        res["suite_tail"] = out[-400:]
    finally:
        sh(f"git -C /repo worktree remove --force {wt}")
    return res

def run_checks(patch_text, checks, sid, in_repo=False):
    """Runs the checks on a tree with the patch applied: a scratch worktree
    (VERIF_REPO, default) or /repo itself (in_repo=True: apply, run, undo)."""
    out = {}
    pf = f"/tmp/seed_apply_{sid}.patch"
    open(pf, "w").write(patch_text)
    if in_repo:
        rc, o = sh("git -C /repo status --porcelain")
        if o.strip():
            raise SystemExit("/repo is not clean: " + o)
        tree = "/repo"
    else:
        tree = f"/tmp/wt-run-{sid}"
        sh(f"git -C /repo worktree remove --force {tree}")
        rc, o = sh(f"git -C /repo worktree add --detach {tree} HEAD")
        if rc != 0:
            raise SystemExit("worktree: " + o)
    rc, o = sh(f"git -C {tree} apply {pf}")
    if rc != 0:
        raise SystemExit("apply failed: " + o)
    try:
        for chk in checks:
            t = time.time()
            env = "" if in_repo else f"VERIF_REPO={tree} VERIF_EVIDENCE_DIR=/tmp/seed_evidence_{sid} "
            rc, o = sh(f"{env}./bin/check {chk} --tier quick", cwd="/verif", timeout=3600)
            sigs = [l.strip() for l in o.splitlines() if l.strip().startswith("signature:")]
            out[chk] = {"exit": rc, "caught": rc == 1, "signatures": sigs[:8], "wall_s": round(time.time() - t, 1), "summary": o.strip().splitlines()[-1] if o.strip() else "", "tree": "scratch worktree of /repo HEAD + patch (VERIF_REPO)" if not in_repo else "/repo + patch (git apply, undone afterwards)"}
    finally:
        if in_repo:
            sh("git -C /repo checkout -- .")
        else:
            sh(f"git -C /repo worktree remove --force {tree}")
            shutil.rmtree(f"/tmp/seed_evidence_{sid}", ignore_errors=True)
        os.remove(pf)
    return out

def main():
    if len(sys.argv) < 5 or sys.argv[1] != "import":
        raise SystemExit(__doc__)
    agent_dir, sid, prop = sys.argv[2], sys.argv[3], sys.argv[4]
    checks = sys.argv[5:] or [prop]
    wt = f"/tmp/wt-verify-{sid}"
    res = confirm(agent_dir, wt)
    ok = res.get("demo_passes_without_patch") and res.get("patch_applies") and res.get("builds") and res.get("demo_fails_with_patch") and res.get("suite_passes_with_patch")
    print(json.dumps({k: v for k, v in res.items() if k != "rebased_patch"}, indent=1))
    if not ok:
        print("NOT CONFIRMED")
        return 1
    results = run_checks(res["rebased_patch"], checks, sid, in_repo=bool(os.environ.get("SEED_IN_REPO")))
    print(json.dumps(results, indent=1))
    dst = f"/verif/seeded/{sid}"
    os.makedirs(dst, exist_ok=True)
    rebased = res["rebased_patch"]
    open(os.path.join(dst, "patch.diff"), "w").write(rebased)
    if os.path.abspath(agent_dir) != os.path.abspath(dst):
        shutil.copy(demo_path(agent_dir), os.path.join(dst, "demo_test.go.txt"))
    if os.path.abspath(agent_dir) != os.path.abspath(dst):
        for f in extra_tests(agent_dir):
            shutil.copy(os.path.join(agent_dir, f), os.path.join(dst, f if f.endswith(".txt") else f + ".txt"))
    notes = ""
    if os.path.exists(os.path.join(agent_dir, "notes.md")):
        notes = open(os.path.join(agent_dir, "notes.md")).read()
        if os.path.abspath(agent_dir) != os.path.abspath(dst):
            open(os.path.join(dst, "notes.md"), "w").write(notes)
    head = sh("git -C /repo rev-parse --short HEAD")[1].strip()
    meta = {
        "id": sid,
        "property": prop,
        "origin": "independent sub-agent given only the property text and a scratch worktree",
        "needs_to_manifest": notes.strip()[:1500],
        "confirmed_on_repo_head": head,
        "confirmation": {
            "demo_passes_without_patch": True, "builds": True, "existing_suite_passes_with_patch": True, "demo_fails_with_patch": True,
            "commands": ["go test " + res.get("demo_flags", "") + " -vet=off -count=1 -run TestSeedDemo .  (scratch worktree, with and without patch)", "go test -vet=off -count=1 -timeout 25m ./...  (with patch)"],
        },
        "checks_run": results,
        "caught_by": [c for c, r in results.items() if r["caught"]],
    }
    json.dump(meta, open(os.path.join(dst, "meta.json"), "w"), indent=1)
    print("CONFIRMED; caught by:", meta["caught_by"])
    return 0

sys.exit(main())
