#!/bin/sh
# usage: runon.sh <name> <patchfile | -R <commit>> <check> [tier]
# runs a check against a scratch worktree of /repo HEAD with a patch applied (or a commit reverted)
name=$1; shift
wt=/tmp/wt-runon-$name
git -C /repo worktree remove --force $wt >/dev/null 2>&1
git -C /repo worktree add --detach $wt HEAD >/dev/null 2>&1 || exit 3
if [ "$1" = "-R" ]; then git -C /repo show $2 | git -C $wt apply -R || exit 3; shift 2; else git -C $wt apply $1 || exit 3; shift; fi
chk=$1; tier=${2:-quick}
cd /verif && VERIF_REPO=$wt VERIF_EVIDENCE_DIR=/tmp/ev-runon-$name ./bin/check $chk --tier $tier
rc=$?
git -C /repo worktree remove --force $wt >/dev/null 2>&1
rm -rf /tmp/ev-runon-$name
exit $rc
