package main

import (
	"fmt"
	"reflect"
	"runtime/debug"
	"sort"
	"strings"

	"github.com/0xrawsec/sod"
)

// ObsOpt selects what an observation vector contains.
type ObsOpt struct {
	Ordered   bool // keep the order of results of searches on fields that are indexed under every compared configuration
	ErrProbes bool // include ill-formed queries (error outcomes)
	Integrity bool // include Control() (async: after FlushAllAndCommit, "once no write is pending")
	Trees     bool // include the And/Or pair menu
}

// indexedUnder tells whether field path p is indexed under cfg.
func indexedUnder(cfg Cfg, p string) bool {
	spec := specByPath(p)
	switch cfg.Index {
	case 0:
		return spec.Indexed
	case 1:
		return p == "K" || p == "N"
	case 3:
		return spec.Indexed || p == "P"
	case 4, 5, 6:
		return spec.Indexed
	}
	return true
}

// safeCall runs f and returns a description of the panic it raised, if any:
// "<message> @ <innermost function of package sod on the stack>".
func safeCall(f func()) (panicked string) {
	defer func() {
		if r := recover(); r != nil {
			if fmt.Sprintf("%T", r) == "vrt.killedT" {
				panic(r)
			}
			panicked = fmt.Sprint(r) + " @ " + sodFrame(string(debug.Stack()))
		}
	}()
	f()
	return ""
}

// sodFrame returns the innermost function of package sod found in a stack dump.
func sodFrame(stack string) string {
	for _, l := range strings.Split(stack, "\n") {
		l = strings.TrimSpace(l)
		if strings.HasPrefix(l, "github.com/0xrawsec/sod.") && !strings.Contains(l, "/zzverif/") {
			name := strings.TrimPrefix(l, "github.com/0xrawsec/sod.")
			if i := strings.LastIndex(name, "("); i > 0 {
				name = name[:i]
			}
			return name
		}
	}
	return "?"
}

// Observe renders everything a user can read from the handle, deterministically
// and with uuids renamed by slot: the differential oracle of C04 and C12.
// ordered(p) decides whether the sequence of a query ending on field p is kept.
func (w *World) Observe(opt ObsOpt, ordered func(path string) bool) string {
	var sb strings.Builder
	n, err := w.DB.Count(&Rec{})
	fmt.Fprintf(&sb, "count=%d,%s\n", n, classify(err))
	objs, err := w.DB.All(&Rec{})
	fmt.Fprintf(&sb, "all=%s:%s\n", classify(err), w.objSetR(objs))
	ids := append(append([]string{}, w.Slots...), NeverUUID)
	for _, u := range ids {
		r := &Rec{}
		r.Initialize(u)
		o, err := w.DB.Get(r)
		fmt.Fprintf(&sb, "get %s=%s", u, classifyRead(err))
		if err == nil {
			sb.WriteString(":" + jsonOf(o))
		}
		r2 := &Rec{}
		r2.Initialize(u)
		ok, err := w.DB.Exist(r2)
		fmt.Fprintf(&sb, " exist=%v,%s\n", ok, classify(err))
	}
	for i := range fieldSpecs {
		spec := &fieldSpecs[i]
		keep := opt.Ordered && ordered != nil && ordered(spec.Path)
		ops := operators
		for _, probe := range spec.probes() {
			for _, op := range ops {
				if op == "~=" {
					continue
				}
				w.obsQuery(&sb, spec.Path, op, probe, keep)
			}
		}
		if spec.Kind == kString {
			for _, pat := range []string{"^a", "A|b", "^$", "."} {
				w.obsQuery(&sb, spec.Path, "~=", pat, keep)
			}
		}
		if keep {
			w.obsAssignIndex(&sb, spec)
		}
	}
	if opt.Trees {
		atoms := atomMenu()
		for _, a := range atoms[:8] {
			for _, b := range atoms[:8] {
				for _, or := range []bool{false, true} {
					q := Query{First: a, Rest: []Link{{Or: or, Atom: b}}}
					s := w.evalImpl(q)
					objs, err := s.Collect()
					fmt.Fprintf(&sb, "q %s=%s:%s\n", q, classify(firstErr(s.Err(), err)), w.objIDsR(objs, false))
				}
			}
		}
	}
	if opt.ErrProbes {
		for _, f := range []string{"A", "S", "P", "L", "K", "In.Tag", "Nope", "", "In", "A.B"} {
			for _, op := range []string{"=", "~=", "<>", ""} {
				for _, probe := range []interface{}{int(1), "x", "(", int64(1), uint8(1), 1.5, nil, []int{1}} {
					var s *sod.Search
					var objs []sod.Object
					var cerr error
					p := safeCall(func() {
						s = w.DB.Search(&Rec{}, f, op, probe)
						objs, cerr = s.Collect()
					})
					if p != "" {
						fmt.Fprintf(&sb, "e %s %s %T(%v)=PANIC\n", f, op, probe, probe)
						continue
					}
					cls := "ok"
					if firstErr(s.Err(), cerr) != nil {
						cls = "error"
					}
					fmt.Fprintf(&sb, "e %s %s %T(%v)=%s:%d\n", f, op, probe, probe, cls, len(objs))
				}
			}
		}
	}
	if opt.Integrity {
		if w.Cfg.Async != 0 {
			if err := w.DB.FlushAllAndCommit(&Rec{}); err != nil {
				fmt.Fprintf(&sb, "flush=%s\n", classify(err))
			}
		}
		fmt.Fprintf(&sb, "control=%s\n", classify(w.DB.Control()))
	}
	return w.rename(sb.String())
}

func firstErr(errs ...error) error {
	for _, e := range errs {
		if e != nil {
			return e
		}
	}
	return nil
}

func classifyRead(err error) string {
	c := classify(err)
	if isNotFoundClass(c) {
		return "notfound"
	}
	return c
}

// objSetR / objIDsR: like objSet / objIDs but ids are renamed by slot BEFORE sorting, so that
// the rendering does not depend on the values of the ids (random with the real generator).
func (w *World) objSetR(objs []sod.Object) string {
	var items []string
	for _, o := range objs {
		items = append(items, w.rename(o.UUID())+"="+jsonOf(o))
	}
	sort.Strings(items)
	return strings.Join(items, ";")
}

func (w *World) objIDsR(objs []sod.Object, keepOrder bool) string {
	var items []string
	for _, o := range objs {
		items = append(items, w.rename(o.UUID()))
	}
	if !keepOrder {
		sort.Strings(items)
	}
	return strings.Join(items, ",")
}

func objSet(objs []sod.Object) string {
	var items []string
	for _, o := range objs {
		items = append(items, o.UUID()+"="+jsonOf(o))
	}
	sort.Strings(items)
	return strings.Join(items, ";")
}

func objIDs(objs []sod.Object, keepOrder bool) string {
	var items []string
	for _, o := range objs {
		items = append(items, o.UUID())
	}
	if !keepOrder {
		sort.Strings(items)
	}
	return strings.Join(items, ",")
}

func (w *World) obsQuery(sb *strings.Builder, path, op string, probe interface{}, keepOrder bool) {
	s := w.DB.Search(&Rec{}, path, op, probe)
	objs, err := s.Collect()
	fmt.Fprintf(sb, "s %s %s %v=%s:%d:%s\n", path, op, probeStr(probe), classify(firstErr(s.Err(), err)), s.Len(), w.objIDsR(objs, keepOrder))
}

func probeStr(p interface{}) string {
	if t, ok := p.(interface{ UnixNano() int64 }); ok {
		return fmt.Sprintf("t%d", t.UnixNano())
	}
	return fmt.Sprintf("%T(%v)", p, p)
}

func (w *World) obsAssignIndex(sb *strings.Builder, spec *FieldSpec) {
	target := assignIndexTarget(spec)
	if target == nil {
		return
	}
	err := w.DB.AssignIndex(&Rec{}, spec.Path, target)
	fmt.Fprintf(sb, "ai %s=%s:%v\n", spec.Path, classify(err), reflect.ValueOf(target).Elem().Interface())
}

// assignIndexTarget returns a pointer to a slice of the Go type of the field.
func assignIndexTarget(spec *FieldSpec) interface{} {
	switch spec.Path {
	case "K", "S", "L", "In.Tag":
		return &[]string{}
	case "N":
		return &[]int64{}
	case "A", "P", "In.Lvl":
		return &[]int{}
	case "U16":
		return &[]uint16{}
	case "U64":
		return &[]uint64{}
	case "F64":
		return &[]float64{}
	case "F32":
		return &[]float32{}
	case "Emb.E":
		return &[]int32{}
	case "T":
		return nil // compared in C13 through UnixNano (time.Time carries a location pointer)
	}
	return nil
}
