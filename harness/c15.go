package main

import (
	"errors"
	"fmt"
	"math"
	"strings"

	"github.com/0xrawsec/sod"
)

func init() {
	drivers["C15"] = runC15
}

// Hk is a collection type whose validity depends on the order of the hooks:
// Transform appends "TX" to Name, the schema's lower constraint then lower-cases
// it, and Validate accepts only names that end in "tx" and are entirely
// lower-case. So Validate succeeds only if Transform and then the case
// transform ran before it. Class 9 is always invalid.
type Hk struct {
	sod.Item
	Name  string `sod:"index,lower"`
	U     string `sod:"unique,upper"`
	Mark  string
	Class int
	// Ratio is computed by Transform; for class 8 the result has no JSON form (NaN)
	Ratio float64
	// LU: the case constraint is written before unique in the tag
	LU string `sod:"lower,unique"`
	// Q: a case constraint on a named string type
	Q Queue `sod:"lower"`
	// Plain: no tag; one configuration gives it a lower constraint through a custom schema only
	Plain string
	// Deep: a case constraint four path components down (value nesting)
	Deep hkD1
	// Meta.Owner.Name: a case constraint behind a pointer that is not at the first level
	Meta hkMeta
}

type hkD3 struct {
	Leaf string `sod:"lower"`
}
type hkD2 struct{ D3 hkD3 }
type hkD1 struct{ D2 hkD2 }
type hkOwner struct {
	Name string `sod:"upper"`
}
type hkMeta struct{ Owner *hkOwner }

type Queue string

// hkPlainLower: the schema in use declares Plain lower-case (custom schema, not the tags)
var hkPlainLower bool

func newHk(name, u string) *Hk {
	h := &Hk{Name: name, U: u, LU: "Lu" + u, Q: Queue("Qq" + name), Plain: "Pl" + name}
	h.Deep.D2.D3.Leaf = "Leaf" + name
	h.Meta.Owner = &hkOwner{Name: "Own" + name}
	return h
}

type hkEvent struct {
	Kind string // T or V
	Obj  *Hk
	Name string // Name observed by the hook
	U    string
	FS   int    // number of file-system mutations so far
	Dump uint64 // hash of the complete handle state
}

var hkLog []hkEvent
var hkWorld *World

func (h *Hk) Transform() {
	hkLog = append(hkLog, hkEvent{Kind: "T", Obj: h, Name: h.Name, U: h.U, FS: hkFS(), Dump: hkDump()})
	h.Name = h.Name + "TX"
	h.Mark = "seen:" + h.U
	if h.Class == 8 {
		h.Ratio = math.NaN()
	}
}

var errHkInvalid = errors.New("hk: invalid")

func (h *Hk) Validate() error {
	hkLog = append(hkLog, hkEvent{Kind: "V", Obj: h, Name: h.Name, U: h.U, FS: hkFS(), Dump: hkDump()})
	if h.Class == 9 {
		return errHkInvalid
	}
	if !strings.HasSuffix(h.Name, "tx") || h.Name != strings.ToLower(h.Name) || h.U != strings.ToUpper(h.U) || !strings.HasPrefix(h.Mark, "seen:") {
		return errHkInvalid
	}
	if h.Deep.D2.D3.Leaf != strings.ToLower(h.Deep.D2.D3.Leaf) || h.Meta.Owner == nil || h.Meta.Owner.Name != strings.ToUpper(h.Meta.Owner.Name) {
		return errHkInvalid
	}
	if h.LU != strings.ToLower(h.LU) || string(h.Q) != strings.ToLower(string(h.Q)) || (hkPlainLower && h.Plain != strings.ToLower(h.Plain)) {
		return errHkInvalid
	}
	return nil
}

func hkFS() int {
	if hkWorld == nil {
		return 0
	}
	return len(hkWorld.FS.Log)
}

func hkDump() uint64 {
	if hkWorld == nil {
		return 0
	}
	return hashStr(dumpValue(hkWorld.DB))
}

type hkModel map[string]string // uuid -> json of expected stored value

func expectHk(name, u string, class int) *Hk {
	h := &Hk{Name: strings.ToLower(name + "TX"), U: strings.ToUpper(u), Mark: "seen:" + u, Class: class,
		LU: strings.ToLower("Lu" + u), Q: Queue(strings.ToLower("Qq" + name)), Plain: "Pl" + name}
	if hkPlainLower {
		h.Plain = strings.ToLower(h.Plain)
	}
	h.Deep.D2.D3.Leaf = strings.ToLower("Leaf" + name)
	h.Meta.Owner = &hkOwner{Name: strings.ToUpper("Own" + name)}
	return h
}

func runC15(c *Ctx) {
	cfgs := []Cfg{{}, {Cache: true}, {Async: 1}, {Cache: true, Compress: true, Async: 2}, {Index: 2}}
	names := []string{"ab", "AB", "", "Zz"}
	// entry points x position of the offender
	type scen struct {
		Entry    string // single | many | bulk
		N        int    // members
		Offender int    // -1 none
		CSize    int
		Pre      int  // objects stored before
		Reopen   bool // the handle is closed and re-opened before the call (schema loaded from disk)
		NaN      bool // the offender is valid but its Transform makes it unserialisable (instead of invalid)
	}
	var scens []scen
	for pre := 0; pre <= 2; pre++ {
		for _, off := range []int{-1, 0} {
			scens = append(scens, scen{"single", 1, off, 0, pre, false, false})
		}
		maxN := 3
		for n := 1; n <= maxN; n++ {
			for off := -1; off < n; off++ {
				scens = append(scens, scen{"many", n, off, 0, pre, false, false})
				for _, cs := range []int{1, 2} {
					scens = append(scens, scen{"bulk", n, off, cs, pre, false, false})
				}
			}
		}
	}
	for _, sc := range append([]scen{}, scens...) {
		sc.Reopen = true
		scens = append(scens, sc)
	}
	for _, sc := range append([]scen{}, scens...) {
		if sc.Offender >= 0 {
			sc.NaN = true
			scens = append(scens, sc)
		}
	}
	item := 0
	for _, cfg := range cfgs {
		for _, sc := range scens {
			for ni, name := range names {
				item++
				if item%c.NShards != c.Shard {
					continue
				}
				cfg, sc, name := cfg, sc, name
				var viol []Violation
				fail := func(sig, what string) {
					viol = append(viol, Violation{Sig: "C15|" + sig, What: what, Cfg: cfg, More: map[string]interface{}{"scenario": sc, "name": name}})
				}
				x := RunPath(cfg, "C15", nil, func(w *World) {
					hkWorld = w
					defer func() { hkWorld = nil }()
					db := w.DB
					sch := cfg.Schema(&Hk{})
					hkPlainLower = cfg.Index == 2
					if hkPlainLower {
						// a constraint that exists only in a hand-built schema
						fds := sod.FieldDescriptors(&Hk{})
						fds.Constraint("Plain", sod.Constraints{Lower: true})
						custom := sod.NewCustomSchema(fds, sod.DefaultExtension)
						custom.Cache, custom.Compress, custom.AsyncWrites = sch.Cache, sch.Compress, sch.AsyncWrites
						sch = custom
					}
					if err := db.Create(&Hk{}, sch); err != nil {
						fail("create", "Create(Hk) failed: "+err.Error())
						return
					}
					stored := hkModel{}
					for i := 0; i < sc.Pre; i++ {
						h := newHk(fmt.Sprintf("pre%d", i), fmt.Sprintf("pre%d", i))
						if err := db.InsertOrUpdate(h); err != nil {
							fail("pre-insert", "plain insert failed: "+err.Error())
							return
						}
						stored[h.UUID()] = jsonOf(expectHk(fmt.Sprintf("pre%d", i), fmt.Sprintf("pre%d", i), 0))
					}
					if sc.Reopen {
						if err := db.Close(); err != nil {
							fail("close", "Close failed: "+err.Error())
							return
						}
						db = sod.Open(dbRoot)
						w.DB = db
						// load the collection now: the lazy load is a legitimate change of the handle
						// and must not be taken for a modification made before Validate
						if _, err := db.Count(&Hk{}); err != nil {
							fail("reopen", "Count after re-opening failed: "+err.Error())
							return
						}
					}
					// build members
					var objs []sod.Object
					var hs []*Hk
					for i := 0; i < sc.N; i++ {
						h := newHk(name, fmt.Sprintf("%s-m%d", name, i))
						if i == sc.Offender {
							h.Class = 9
							if sc.NaN {
								h.Class = 8
							}
						}
						objs = append(objs, h)
						hs = append(hs, h)
					}
					hkLog = nil
					startFS, startDump := hkFS(), hkDump()
					var err error
					nStored := 0
					switch sc.Entry {
					case "single":
						err = db.InsertOrUpdate(objs[0])
						if err == nil {
							nStored = 1
						}
					case "many":
						nStored, err = db.InsertOrUpdateMany(objs...)
					case "bulk":
						ch := make(chan sod.Object, len(objs))
						for _, o := range objs {
							ch <- o
						}
						close(ch)
						nStored, err = db.InsertOrUpdateBulk(ch, sc.CSize)
					}
					log := hkLog
					hkLog = nil
					// expected: which members are stored
					expectStored := map[int]bool{}
					switch {
					case sc.Offender < 0:
						for i := range hs {
							expectStored[i] = true
						}
					case sc.Entry == "bulk":
						// whole chunks before the offender's chunk
						for i := 0; i < (sc.Offender/sc.CSize)*sc.CSize; i++ {
							expectStored[i] = true
						}
					}
					if sc.Offender >= 0 && sc.NaN {
						if err == nil {
							fail("unserialisable-accepted|"+sc.Entry, "an object that its Transform made unserialisable (NaN) was accepted")
							return
						}
					} else if sc.Offender >= 0 {
						if !errors.Is(err, sod.ErrInvalidObject) {
							fail("invalid-class|"+sc.Entry, fmt.Sprintf("an object whose Validate fails was answered with %v, not ErrInvalidObject", err))
							return
						}
					} else if err != nil {
						fail("valid-rejected|"+sc.Entry, fmt.Sprintf("objects made valid by Transform and the case transform were rejected: %v (hook order?)", err))
						return
					}
					if nStored != len(expectStored) {
						fail("count|"+sc.Entry, fmt.Sprintf("reported n=%d, expected %d", nStored, len(expectStored)))
						return
					}
					// per object: Transform before Validate, Validate sees canonical case
					seenT := map[*Hk]bool{}
					if len(log) > 0 {
						// baseline = first hook of the call (after the schema lookup, which may
						// legitimately start the background writer)
						startFS, startDump = log[0].FS, log[0].Dump
					}
					for _, ev := range log {
						switch ev.Kind {
						case "T":
							seenT[ev.Obj] = true
						case "V":
							if !seenT[ev.Obj] {
								fail("validate-before-transform|"+sc.Entry, "Validate was consulted before Transform")
								return
							}
							if ev.Name != strings.ToLower(ev.Name) || ev.U != strings.ToUpper(ev.U) {
								fail("validate-before-case|"+sc.Entry, fmt.Sprintf("Validate observed non canonical fields Name=%q U=%q", ev.Name, ev.U))
								return
							}
							if sc.Entry != "bulk" && (ev.FS != startFS || ev.Dump != startDump) {
								fail("mutation-before-validate|"+sc.Entry, "the handle or the files were modified before the last Validate of the call")
								return
							}
						}
					}
					for i, h := range hs {
						if (sc.Offender < 0 || i < sc.Offender || sc.Entry != "single") && !seenT[h] && sc.Offender < 0 {
							fail("no-transform|"+sc.Entry, "an accepted object was never transformed")
							return
						}
					}
					// stored values = transformed values; invalid and unstored members invisible
					for i, h := range hs {
						if expectStored[i] {
							stored[h.UUID()] = jsonOf(expectHk(name, fmt.Sprintf("%s-m%d", name, i), 0))
						}
					}
					all, aerr := db.All(&Hk{})
					if aerr != nil {
						fail("all-err", "All failed: "+aerr.Error())
						return
					}
					got := hkModel{}
					for _, o := range all {
						got[o.UUID()] = jsonOf(o)
					}
					if len(got) != len(stored) {
						fail("visible-set|"+sc.Entry, fmt.Sprintf("All returns %d objects, expected %d (an invalid or unstored object is visible, or a stored one is missing)", len(got), len(stored)))
						return
					}
					for u, j := range stored {
						if got[u] != j {
							fail("stored-value|"+sc.Entry, fmt.Sprintf("stored value %s, expected the transformed value %s", got[u], j))
							return
						}
						// Get (cache path) too
						h := &Hk{}
						h.Initialize(u)
						o, gerr := db.Get(h)
						if gerr != nil || jsonOf(o) != j {
							fail("stored-value-get|"+sc.Entry, fmt.Sprintf("Get returns %s (%v), expected %s", jsonOf(o), gerr, j))
							return
						}
					}
					for i, h := range hs {
						if !expectStored[i] && h.UUID() != "" {
							p := &Hk{}
							p.Initialize(h.UUID())
							if o, gerr := db.Get(p); gerr == nil {
								fail("invalid-visible-get|"+sc.Entry, "an object that was not stored is returned by Get: "+jsonOf(o))
								return
							}
						}
					}
					// searches see canonical values only
					s := db.Search(&Hk{}, "Name", "=", strings.ToUpper(name)+"tx")
					if s.Err() != nil || s.Len() != len(expectStored) {
						fail("search-canonical|"+sc.Entry, fmt.Sprintf("search on the transformed value finds %d objects (err %v), expected %d", s.Len(), s.Err(), len(expectStored)))
					}
				})
				_ = x
				c.Count("evaluations", 1)
				c.Count("transitions", sc.Pre+1)
				c.Count("paths_replayed", 1)
				c.Distinct("states", cfg.String()+jsonOf(sc)+name)
				if sc.Offender >= 0 || ni > 0 {
					c.Distinct("distinct_nontrivial", cfg.String()+jsonOf(sc)+name)
				}
				for _, v := range append(viol, x.W.Viol...) {
					c.Violation(v)
				}
				if item < 40 {
					c.Sample(map[string]interface{}{"cfg": cfg, "scenario": sc, "name": name})
				}
			}
		}
	}
	c.Meta(map[string]interface{}{
		"rule":      "every insertion entry point (single, Many with the offender at each position or none, Bulk with chunk sizes 1 and 2) x 0..2 pre-stored objects x {same handle, handle closed and re-opened before the call} x 4 name classes x 4 configurations, with a collection type whose Validate accepts only what Transform followed by the schema's case transforms produce; the offender is either invalid or made unserialisable by its own Transform; a recorder inside the hooks captures, at every hook call, the number of file mutations and a hash of the complete handle. Oracles: Transform precedes Validate per object, Validate observes canonical case, nothing is modified before the last Validate of a call (single/Many), stored = transformed, invalid => ErrInvalidObject and invisible through All/Get/Search. Non-trivial = scenarios with an offender or a case-mixed name.",
		"scenarios": len(scens), "configs": cfgs,
	})
}
