package main

import (
	"fmt"
	"reflect"
	"sort"

	"github.com/0xrawsec/sod"
)

func init() {
	drivers["C13"] = runC13
}

// seqOf collects the uuids of objs in order.
func seqOf(objs []sod.Object) []string {
	out := make([]string, 0, len(objs))
	for _, o := range objs {
		out = append(out, o.UUID())
	}
	return out
}

func eqSeq(a, b []string) bool {
	if len(a) != len(b) {
		return false
	}
	for i := range a {
		if a[i] != b[i] {
			return false
		}
	}
	return true
}

func reversedSeq(a []string) []string {
	out := make([]string, len(a))
	for i := range a {
		out[len(a)-1-i] = a[i]
	}
	return out
}

// monotone checks that seq is non-increasing (dir=-1) or non-decreasing (dir=+1) in field path p.
func (w *World) monotone(seq []string, p string, dir int) bool {
	for i := 1; i < len(seq); i++ {
		a, ok1 := w.M.Objs[seq[i-1]]
		b, ok2 := w.M.Objs[seq[i]]
		if !ok1 || !ok2 {
			return false
		}
		c := cmp3(orderKey(p, a), orderKey(p, b))
		if dir < 0 && c < 0 || dir > 0 && c > 0 {
			return false
		}
	}
	return true
}

func (w *World) checkOrdered(q Query, last string) {
	want := w.evalModel(q)
	m := len(want)
	fresh := func() *sod.Search { return w.evalImpl(q) }
	s0 := fresh()
	if s0.Err() != nil {
		w.fail("ordered-err", fmt.Sprintf("query %s failed: %v", q, s0.Err()))
		return
	}
	objs, err := s0.Collect()
	if err != nil {
		w.fail("ordered-collect-err", fmt.Sprintf("query %s: Collect failed: %v", q, err))
		return
	}
	seq0 := seqOf(objs)
	got := map[string]bool{}
	for _, u := range seq0 {
		got[u] = true
	}
	if len(seq0) != m || !setEq(got, want) {
		w.fail("ordered-set", fmt.Sprintf("query %s returned %s, expected the set %s", q, w.rename(fmt.Sprint(seq0)), w.rename(fmt.Sprint(setKeys(want)))))
		return
	}
	if !w.monotone(seq0, last, -1) {
		w.fail("order-desc|"+last, fmt.Sprintf("query %s: Collect is not in non-increasing order of %s: %s", q, last, w.rename(fmt.Sprint(seq0))))
		return
	}
	robjs, err := fresh().Reverse().Collect()
	rseq := seqOf(robjs)
	if err != nil || len(rseq) != m || !w.monotone(rseq, last, +1) {
		w.fail("order-reverse|"+last, fmt.Sprintf("query %s: Reverse().Collect() = %s (err %v) is not the %d matches in non-decreasing order of %s", q, w.rename(fmt.Sprint(rseq)), err, m, last))
		return
	}
	for _, rev := range []bool{false, true} {
		full := seq0
		if rev {
			full = rseq
		}
		limits := map[int]bool{0: true, 1: true, m: true, m + 1: true}
		if m > 1 {
			limits[m-1] = true
		}
		var ls []int
		for n := range limits {
			ls = append(ls, n)
		}
		sort.Ints(ls)
		for _, n := range ls {
			exp := full
			if n < len(full) {
				exp = full[:n]
			}
			s := fresh()
			if rev {
				s.Reverse()
			}
			lobjs, err := s.Limit(uint64(n)).Collect()
			if err != nil || !eqSeq(seqOf(lobjs), exp) {
				w.fail(fmt.Sprintf("limit|rev=%v", rev), fmt.Sprintf("query %s rev=%v Limit(%d).Collect() = %s (err %v), expected %s", q, rev, n, w.rename(fmt.Sprint(seqOf(lobjs))), err, w.rename(fmt.Sprint(exp))))
				return
			}
			// Assign must agree with Collect
			var recs []*Rec
			s = fresh()
			if rev {
				s.Reverse()
			}
			err = s.Limit(uint64(n)).Assign(&recs)
			var aseq []string
			for _, r := range recs {
				aseq = append(aseq, r.UUID())
			}
			if err != nil || !eqSeq(aseq, exp) {
				w.fail(fmt.Sprintf("limit-assign|rev=%v", rev), fmt.Sprintf("query %s rev=%v Limit(%d).Assign() = %s (err %v), expected %s", q, rev, n, w.rename(fmt.Sprint(aseq)), err, w.rename(fmt.Sprint(exp))))
				return
			}
		}
		// One
		s := fresh()
		if rev {
			s.Reverse()
		}
		o, err := s.One()
		if m == 0 {
			if !sod.IsNoObjectFound(err) {
				w.fail("one-empty", fmt.Sprintf("query %s: One() on an empty result returned (%v, %v), expected the no-object error", q, o, err))
				return
			}
		} else if err != nil || o.UUID() != full[0] {
			w.fail(fmt.Sprintf("one|rev=%v", rev), fmt.Sprintf("query %s rev=%v: One() = (%v, %v), expected first element %s", q, rev, o, err, w.rename(full[0])))
			return
		}
		// terminal sequences on the same search value: a terminal call's result
		// does not depend on terminal calls made before it
		if m > 0 {
			terms := []string{"collect", "one", "assign", "assignone"}
			for _, t1 := range terms {
				for _, t2 := range terms {
					for _, lim := range []int{-1, 2} {
						s := fresh()
						if rev {
							s.Reverse()
						}
						exp := full
						if lim >= 0 {
							s.Limit(uint64(lim))
							if lim < len(full) {
								exp = full[:lim]
							}
						}
						w.terminal(s, t1)
						got, err := w.terminal(s, t2)
						var expect []string
						switch t2 {
						case "collect", "assign":
							expect = exp
						default:
							expect = full[:1]
						}
						if err != nil || !eqSeq(got, expect) {
							w.fail("terminal-seq|"+t1+"-then-"+t2, fmt.Sprintf("query %s rev=%v limit=%d: %s after %s on the same search returned %s (err %v), expected %s", q, rev, lim, t2, t1, w.rename(fmt.Sprint(got)), err, w.rename(fmt.Sprint(expect))))
							return
						}
					}
				}
			}
		}
	}
}

func (w *World) terminal(s *sod.Search, t string) ([]string, error) {
	switch t {
	case "collect":
		objs, err := s.Collect()
		return seqOf(objs), err
	case "assign":
		var recs []*Rec
		err := s.Assign(&recs)
		var out []string
		for _, r := range recs {
			out = append(out, r.UUID())
		}
		return out, err
	case "one":
		o, err := s.One()
		if err != nil {
			return nil, err
		}
		return []string{o.UUID()}, nil
	case "assignone":
		var r *Rec
		err := s.AssignOne(&r)
		if err != nil {
			return nil, err
		}
		return []string{r.UUID()}, nil
	}
	panic(t)
}

// checkAssignIndex: the field value of every stored object, once each, non-increasing.
func (w *World) checkAssignIndex(spec *FieldSpec) {
	var want []interface{}
	for _, r := range w.M.Objs {
		want = append(want, spec.get(r))
	}
	sort.Slice(want, func(i, j int) bool { return cmp3(want[i], want[j]) > 0 })
	for _, prefilled := range []bool{false, true} {
		w.checkAssignIndexInto(spec, want, prefilled)
	}
}

// checkAssignIndexInto: prefilled = the target already holds more elements than
// the collection (a re-used or pre-sized buffer): they must not survive.
func (w *World) checkAssignIndexInto(spec *FieldSpec, want []interface{}, prefilled bool) {
	var target interface{}
	if spec.Path == "T" {
		target = newTimeSlice()
	} else {
		target = assignIndexTarget(spec)
	}
	if target == nil {
		return
	}
	if prefilled {
		tv := reflect.ValueOf(target).Elem()
		tv.Set(reflect.MakeSlice(tv.Type(), len(want)+2, len(want)+3))
	}
	if err := w.DB.AssignIndex(&Rec{}, spec.Path, target); err != nil {
		w.fail("assignindex-err|"+spec.Path, "AssignIndex("+spec.Path+") failed: "+err.Error())
		return
	}
	v := reflect.ValueOf(target).Elem()
	if v.Len() != len(want) {
		w.fail("assignindex-len|"+spec.Path, fmt.Sprintf("AssignIndex(%s) returned %d values, expected %d", spec.Path, v.Len(), len(want)))
		return
	}
	for i := 0; i < v.Len(); i++ {
		g := normalise(v.Index(i).Interface())
		if cmp3(g, want[i]) != 0 {
			w.fail("assignindex-value|"+spec.Path, fmt.Sprintf("AssignIndex(%s)[%d] = %v, expected %v (non-increasing order of the stored values)", spec.Path, i, g, want[i]))
			return
		}
	}
}

func runC13(c *Ctx) {
	depth := 3
	cfgs := []Cfg{{}, {Index: 2, Cache: true}, {Async: 1, Compress: true}}
	if c.Tier == "thorough" {
		depth = 4
		cfgs = append(cfgs, Cfg{Index: 2, Async: 2, MapRev: true}, Cfg{Lower: true, Ext: ".v1.obj"})
	}
	atoms := atomMenu()
	for _, cfg := range cfgs {
		cfg := cfg
		e := &Explorer{C: c, Cfg: cfg, Prop: "C13", Alphabet: alphabetContents(cfg), Depth: depth, MaxLive: 4}
		e.OnNew = func(w *World, path []Op) {
			n := 0
			for i := range fieldSpecs {
				spec := &fieldSpecs[i]
				if !indexedUnder(cfg, spec.Path) {
					continue
				}
				probes := spec.probes()
				if len(probes) > 4 {
					probes = probes[:4]
				}
				for _, probe := range probes {
					for _, op := range operators {
						if op == "~=" && spec.Kind != kString {
							continue
						}
						p := probe
						if op == "~=" {
							p = "."
						}
						last := Atom{spec.Path, op, p}
						w.checkOrdered(Query{First: last}, spec.Path)
						n++
						if len(w.Viol) > 0 {
							return
						}
					}
				}
				// And-chains ending on this field
				for _, a := range atoms[:6] {
					last := Atom{spec.Path, ">=", spec.probes()[0]}
					w.checkOrdered(Query{First: a, Rest: []Link{{Atom: last}}}, spec.Path)
					last = Atom{spec.Path, "!=", spec.probes()[1]}
					w.checkOrdered(Query{First: a, Rest: []Link{{Atom: last}}}, spec.Path)
					n += 2
					if len(w.Viol) > 0 {
						return
					}
				}
				w.checkAssignIndex(spec)
				if len(w.Viol) > 0 {
					return
				}
			}
			c.Count("evaluations", n)
			if len(w.M.Objs) >= 2 {
				c.Distinct("distinct_nontrivial", cfg.String()+w.StateKey())
			}
		}
		e.Run()
	}
	runC13Long(c)
	runBigCollection(c, "C13")
	c.Meta(map[string]interface{}{
		"rule":    "(big collections: 150 and 300 (thorough up to 1100) objects over 7 value classes: sizes, Limit {1,8,9,16,17,64,127,128,129,200,m-1,m,m+1} prefix in both orders, Assign.) (long indexes: every insertion sequence over a three-value domain of length 5 (thorough 7), after each insertion from the 4th on, after an update of every object and after each deletion: for an indexed int and an indexed string, every operator x 4 probes, alone and as last link of an And chain: non-increasing order, Reverse non-decreasing, Limit {0,1,2,m-1,m,m+1} = prefix of the unlimited result in both orders and whichever of Limit/Reverse is called first, One = first element or the no-object error, AssignIndex complete and non-increasing.) in every state reached by BFS over the contents alphabet (ties guaranteed by the value classes): every single comparison and every And-chain of length 2 ending on an indexed field x {plain, Reverse} x Limit in {0,1,m-1,m,m+1} x terminal pairs over {Collect, One, Assign, AssignOne} on the same search value; oracles: set = reference, non-increasing / non-decreasing in the last field, Limit(n) = prefix of the unlimited sequence, One = head or no-object error, terminals independent of earlier terminals, AssignIndex = stored values in non-increasing order. Non-trivial = states with >= 2 objects.",
		"configs": cfgs, "depth": depth,
	})
}

type timeT_ = struct{}

func newTimeSlice() interface{} { return new([]timeTime) }
