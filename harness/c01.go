package main

func init() { drivers["C01"] = runC01 }

// alphabet of C01: inserts with colliding and non-colliding keys, updates that
// move objects inside indexes and onto foreign keys, deletes of present and
// absent objects, bulk paths, search-delete, reopen, flush family, and reads as
// transitions (with the cache on a read changes handle state).
func alphabetC01(cfg Cfg, tier string) []Op {
	a := []Op{
		{Op: "ins", V: 0, K: 0},
		{Op: "ins", V: 1, K: 2},
		{Op: "ins", V: 2, K: 3},
		{Op: "ins", V: 1, K: 1}, // K collides canonically with k0, N with k2
		{Op: "upd", Slot: 0, V: 3, K: 0},
		{Op: "upd", Slot: 0, V: 0, K: 2}, // onto the key of another object, if stored
		{Op: "upd", Slot: 1, V: 2, K: 4},
		{Op: "del", Slot: 0},
		{Op: "del", Slot: 1},
		{Op: "delabsent"},
		{Op: "delall"},
		{Op: "sdel", Field: "A", Cmp: ">=", Probe: 2}, // A >= 0
		{Op: "sdel", Field: "P", Cmp: "=", Probe: 1},  // unindexed
		{Op: "many", Batch: []Mem{{Kind: "fresh", V: 2, K: 0}, {Kind: "fresh", V: 3, K: 2}}},
		{Op: "many", Batch: []Mem{{Kind: "slot", Slot: 0, V: 1, K: 0}, {Kind: "fresh", V: 0, K: 4}}},
		{Op: "bulk", CSize: 1, Batch: []Mem{{Kind: "fresh", V: 2, K: 4}, {Kind: "fresh", V: 3, K: 4}}},
		{Op: "reopen"},
		{Op: "getabsent"},
		{Op: "get", Slot: 0},
		{Op: "all"},
	}
	if cfg.Async == 0 {
		a = append(a, Op{Op: "abandon"})
	} else {
		a = append(a, Op{Op: "tick"}, Op{Op: "flushall"}, Op{Op: "flushallc"})
	}
	if tier == "thorough" {
		a = append(a, Op{Op: "commit"}, Op{Op: "create"})
	}
	return a
}

func runC01(c *Ctx) {
	cfgs := cfgQuick
	depth := 4
	if c.Tier == "thorough" {
		depth = 5
	}
	for _, cfg := range cfgs {
		e := &Explorer{C: c, Cfg: cfg, Prop: "C01", Alphabet: alphabetC01(cfg, c.Tier), Depth: depth, MaxLive: 3}
		e.Check = func(w *World) {
			w.SweepBasic()
			if len(w.Viol) == 0 {
				// reads must not change what reads return
				w.SweepBasic()
			}
			if len(w.Viol) == 0 && w.Cfg.Async == 0 {
				w.DirCheck()
			}
			c.Count("evaluations", 1)
			if len(w.M.Objs) > 0 || len(w.Dead) > 0 || len(w.M2) > 0 {
				c.Distinct("distinct_nontrivial", w.Cfg.String()+jsonOf(w.Path))
			}
		}
		e.Run()
	}
	// live settings switches (Create with a compatible schema toggling cache / asynchronous writes)
	// inside histories: what reads return never depends on the settings the handle went through
	{
		cfg := Cfg{Async: 2}
		alpha := []Op{
			{Op: "ins", V: 0, K: 0}, {Op: "ins", V: 1, K: 2},
			{Op: "upd", Slot: 0, V: 3, K: 0}, {Op: "del", Slot: 0}, {Op: "get", Slot: 0},
			{Op: "settings", Alt: 0}, {Op: "settings", Alt: 1}, {Op: "settings", Alt: 4},
		}
		sdepth := 5
		if c.Tier == "thorough" {
			sdepth = 6
			alpha = append(alpha, Op{Op: "settings", Alt: 6}, Op{Op: "reopen"})
		}
		e := &Explorer{C: c, Cfg: cfg, Prop: "C01", Alphabet: alpha, Depth: sdepth, MaxLive: 3}
		e.Check = func(w *World) {
			w.SweepBasic()
			if len(w.Viol) == 0 {
				w.SweepBasic()
			}
			c.Count("evaluations", 1)
			if len(w.M.Objs) > 0 || len(w.Dead) > 0 || len(w.M2) > 0 {
				c.Distinct("distinct_nontrivial", w.Cfg.String()+jsonOf(w.Path))
			}
		}
		e.Run()
	}
	// two collections in one database, created from the same Schema value: histories mixing calls
	// on both; each collection must behave as if it were alone
	worldTwo = true
	for _, cfg := range []Cfg{{}, {Cache: true}, {Async: 1}, {Async: 2, Compress: true, Lower: true}} {
		alpha := []Op{
			{Op: "ins", V: 0, K: 0}, {Op: "ins", V: 1, K: 2}, {Op: "upd", Slot: 0, V: 3, K: 0}, {Op: "del", Slot: 0}, {Op: "delall"}, {Op: "reopen"},
			{Op: "ins2", V: 1}, {Op: "ins2", V: 2}, {Op: "dup2", V: 3}, {Op: "upd2", V: 4}, {Op: "del2"}, {Op: "delall2"},
		}
		if cfg.Async != 0 {
			alpha = append(alpha, Op{Op: "tick"}, Op{Op: "flushallc"})
		}
		tdepth := 4
		if c.Tier == "thorough" {
			tdepth = 5
		}
		e := &Explorer{C: c, Cfg: cfg, Prop: "C01", Alphabet: alpha, Depth: tdepth, MaxLive: 3}
		e.Check = func(w *World) {
			w.SweepBasic()
			if len(w.Viol) == 0 {
				w.SweepBasic()
			}
			c.Count("evaluations", 1)
			if len(w.M.Objs) > 0 || len(w.Dead) > 0 || len(w.M2) > 0 {
				c.Distinct("distinct_nontrivial", w.Cfg.String()+jsonOf(w.Path))
			}
		}
		e.Run()
	}
	worldTwo = false
	c.Meta(map[string]interface{}{
		"rule":     "(plus: two collections created from one Schema value, histories of depth 4 (thorough 5) over 12-14 letters acting on either, 4 configurations: both collections agree with their reference after every history.) (plus: histories of depth 5 (thorough 6) over 8 letters of which 3 switch cache / asynchronous writes on the live handle, same sweep.) breadth-first search over all call histories up to the stated depth from a fixed alphabet (inserts with forced key/index collisions, updates, deletes, batches, search-delete, reopen/abandon, flush family, reads as transitions) under each configuration; after every history the complete non-search read sweep (Count, All, AssignAll, Get/GetByUUID/Exist for every stored, deleted and never-stored id, twice) is compared with the reference map. A state is distinct by the canonical dump of the whole handle + file system + model; non-trivial = reached by at least one accepted write.",
		"alphabet": alphabetC01(Cfg{}, c.Tier),
		"configs":  cfgs,
		"depth":    depth,
	})
}
