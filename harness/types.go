package main

import (
	"encoding/json"
	"errors"
	"fmt"
	"math"
	"strings"
	"time"

	"github.com/0xrawsec/sod"
)

// ---- harness collection types (public API of sod only) -------------------------

type Inner struct {
	Tag string `sod:"index,lower"`
	Lvl int    `sod:"index"`
}

type Emb struct {
	E int32 `sod:"index"`
}

// Rec is the main collection type: two unique fields, indexed fields of every
// ordering class, unindexed twins, a nested pointer, an embedded struct and
// container payloads.
type Rec struct {
	sod.Item
	K   string    `sod:"index,unique,upper"`
	N   int64     `sod:"unique"`
	A   int       `sod:"index"`
	U16 uint16    `sod:"index"`
	U64 uint64    `sod:"index"`
	F64 float64   `sod:"index"`
	F32 float32   `sod:"index"`
	S   string    `sod:"index"`
	T   time.Time `sod:"index"`
	P   int
	Q   float64 // unindexed payload; NaN makes the object unserialisable
	L   string  `sod:"lower"`
	In  *Inner
	Emb
	Sl  []int
	M   map[string]int
	Ptr *int
}

var errInvalidRec = errors.New("harness: invalid record")

// InvalidP is the value of P that makes Validate fail.
const InvalidP = 666

func (r *Rec) Validate() error {
	if r.P == InvalidP {
		return errInvalidRec
	}
	return nil
}

// Other is a second collection type, used as the "wrong type" in batches.
type Other struct {
	sod.Item
	X int `sod:"index"`
}

// ---- value tables ---------------------------------------------------------------------

const NV = 4 // value classes
const NK = 5 // key classes

var zoneX = time.FixedZone("X", 3600)

var (
	tabA   = [NV]int{-3, 0, 5, math.MaxInt64}
	tabU16 = [NV]uint16{0, 1, 7, math.MaxUint16}
	tabU64 = [NV]uint64{0, 1, 1<<53 + 1, math.MaxUint64}
	tabF64 = [NV]float64{-math.MaxFloat64, math.Copysign(0, -1), 1.5, math.MaxFloat64}
	tabF32 = [NV]float32{-1.25, 0, 0.1, math.MaxFloat32}
	tabS   = [NV]string{"", "A", "a", "b"}
	tabT   = [NV]time.Time{
		time.Unix(0, 0).UTC(),
		time.Unix(1700000000, 1).UTC(),
		time.Unix(1700000000, 2).In(zoneX),
		time.Unix(1700000001, 999999999).UTC(),
	}
	tabP  = [NV]int{0, 1, 2, 2}
	tabL  = [NV]string{"", "Ab", "ab", "ZZ"}
	tabE  = [NV]int32{math.MinInt32, 0, 1, math.MaxInt32}
	tabIn = [NV]*Inner{nil, {Tag: "X", Lvl: 0}, {Tag: "x", Lvl: 2}, {Tag: "y", Lvl: -1}}

	tabK = [NK]string{"ka", "KA", "kb", "kc", "kd"}
	tabN = [NK]int64{10, 11, 11, 1<<53 + 1, 1<<53 + 2}
)

// NewRec builds the record of value class v and key class k (no uuid).
func NewRec(v, k int) *Rec {
	r := &Rec{
		K: tabK[k], N: tabN[k],
		A: tabA[v], U16: tabU16[v], U64: tabU64[v], F64: tabF64[v], F32: tabF32[v],
		S: tabS[v], T: tabT[v], P: tabP[v], L: tabL[v], Q: 0.5 * float64(v),
		Emb: Emb{E: tabE[v]},
	}
	if in := tabIn[v]; in != nil {
		c := *in
		r.In = &c
	}
	switch v {
	case 1:
		r.Sl = []int{}
		r.M = map[string]int{}
		z := 0
		r.Ptr = &z
	case 2:
		r.Sl = []int{1, 2}
		r.M = map[string]int{"a": 1}
		z := 7
		r.Ptr = &z
	case 3:
		r.Sl = []int{3}
		r.M = map[string]int{"a": 1, "b": 2}
	}
	return r
}

// canon applies the documented canonicalisation (upper / lower constraints) in place.
func canon(r *Rec) {
	r.K = strings.ToUpper(r.K)
	r.L = strings.ToLower(r.L)
	if r.In != nil {
		r.In.Tag = strings.ToLower(r.In.Tag)
	}
}

// jsonOf is the observation of an object: its JSON encoding (what a file round
// trip preserves).
func jsonOf(o interface{}) string {
	b, err := json.Marshal(o)
	if err != nil {
		return "!marshal:" + err.Error()
	}
	return string(b)
}

func cloneRec(r *Rec) *Rec {
	var c Rec
	if err := json.Unmarshal([]byte(jsonOf(r)), &c); err != nil {
		panic(err)
	}
	c.Initialize(r.UUID())
	return &c
}

// ---- configurations -----------------------------------------------------------------------

// Cfg is one storage configuration.
type Cfg struct {
	Cache    bool   `json:"cache"`
	Compress bool   `json:"compress"`
	Async    int    `json:"async"` // 0 off; 1 threshold 2 / timeout 2 steps; 2 threshold 100 / timeout 2 steps; 3 threshold 2 / timeout 1000 steps
	Lower    bool   `json:"lower"` // sod.LowercaseNames
	Ext      string `json:"ext"`
	Index    int    `json:"index"`  // 0 struct tags; 1 nothing indexed (unique kept); 2 everything indexable indexed; 3 tags + P declared unique (only) by a custom schema; 4/5/6 tags + U64 / F64 / T declared unique by a custom schema
	MapRev   bool   `json:"maprev"` // reversed map iteration order
}

// BaseExt is the extension the configuration stands for: "" = the default one,
// "-" = really no extension (object files are named by their uuid only).
func (c Cfg) BaseExt() string {
	switch c.Ext {
	case "":
		return ".json"
	case "-":
		return ""
	}
	return c.Ext
}

func (c Cfg) String() string {
	b, _ := json.Marshal(c)
	return string(b)
}

const step = 100 * time.Millisecond

func (c Cfg) asyncParams() (thr int, timeout time.Duration) {
	switch c.Async {
	case 1:
		return 2, 2 * step
	case 2:
		return 100, 2 * step
	case 3:
		return 2, 1000 * step
	}
	return 0, 0
}

// UniqueV names the field the custom schemas 4, 5 and 6 declare unique.
func (c Cfg) UniqueV() string {
	switch c.Index {
	case 4:
		return "U64"
	case 5:
		return "F64"
	case 6:
		return "T"
	}
	return ""
}

// Schema builds the sod.Schema value for Create under this configuration.
func (c Cfg) Schema(of sod.Object) sod.Schema {
	var s sod.Schema
	ext := c.BaseExt()
	switch c.Index {
	case 0:
		s = sod.Schema{Extension: ext}
	default:
		fds := sod.FieldDescriptors(of)
		for p, fd := range fds {
			indexable := false
			switch fd.Type {
			case "int", "int8", "int16", "int32", "int64", "uint", "uint8", "uint16", "uint32", "uint64",
				"float32", "float64", "string", "time.Time":
				indexable = true
			}
			switch {
			case c.Index == 1:
				// keep uniqueness (it is semantics), drop plain indexes
				if !fd.Constraints.Unique {
					fd.Constraints.Index = false
				}
			case c.Index == 3:
				// a uniqueness constraint that exists only in the custom schema, not in the tags
				// (P is not indexed by its tags: unique without index)
				if p == "P" {
					fd.Constraints.Unique = true
				}
				// (S is a plain string without case constraint: "A" and "a" are different values)
				if p == "S" {
					fd.Constraints.Unique = true
				}
			case c.Index >= 4:
				// uniqueness on an unsigned (4), a float (5) or a time (6) field, declared in the custom schema only
				if p == c.UniqueV() {
					fd.Constraints.Unique = true
					fd.Constraints.Index = true
				}
			case indexable:
				fd.Constraints.Index = true
			}
			fds[p] = fd
		}
		s = sod.NewCustomSchema(fds, ext)
	}
	s.Compress = c.Compress
	s.Cache = c.Cache
	if c.Async != 0 {
		thr, to := c.asyncParams()
		s.Asynchrone(thr, to)
	}
	return s
}

// the pairwise-covering configuration set used by the quick tiers
var cfgQuick = []Cfg{
	{},
	{Cache: true},
	{Compress: true, Ext: ".v1.obj"},
	{Async: 1},
	{Cache: true, Compress: true, Lower: true, Index: 1},
	{Async: 2, Lower: true, Ext: ".v1.obj", Index: 2},
	{Async: 3, Compress: true, Index: 1},
	{Cache: true, Index: 2, MapRev: true},
	{Index: 3, Ext: ".v1.obj"},
}

func allCfgs() []Cfg {
	var out []Cfg
	for _, cache := range []bool{false, true} {
		for _, comp := range []bool{false, true} {
			for _, as := range []int{0, 1, 2} {
				for _, low := range []bool{false, true} {
					for _, ext := range []string{"", ".v1.obj"} {
						for _, idx := range []int{0, 1, 2} {
							out = append(out, Cfg{Cache: cache, Compress: comp, Async: as, Lower: low, Ext: ext, Index: idx})
						}
					}
				}
			}
		}
	}
	return out
}

// ---- field table for search sweeps --------------------------------------------------------------

const (
	kInt = iota
	kUint
	kFloat
	kString
	kTime
)

// FieldSpec describes one searchable field path of Rec.
type FieldSpec struct {
	Path    string
	Kind    int
	Indexed bool // indexed under struct-tag schema
	// get returns the normalised value of the (canonicalised) model object
	get func(r *Rec) interface{}
	// probes returns well-typed probe values (as the user would pass them)
	probes func() []interface{}
}

func inner(r *Rec) *Inner {
	if r.In == nil {
		return &Inner{}
	}
	return r.In
}

var fieldSpecs = []FieldSpec{
	{"K", kString, true, func(r *Rec) interface{} { return r.K }, func() []interface{} {
		return []interface{}{"ka", "KA", "Kb", "kz", ""}
	}},
	{"N", kInt, true, func(r *Rec) interface{} { return r.N }, func() []interface{} {
		return []interface{}{int64(10), int64(11), int64(12), int64(1<<53 + 1), int64(1<<53 + 2), int64(1 << 53), int64(math.MinInt64), int64(math.MaxInt64)}
	}},
	{"A", kInt, true, func(r *Rec) interface{} { return int64(r.A) }, func() []interface{} {
		return []interface{}{int(-3), int(-4), int(0), int(1), int(5), int(math.MaxInt64), int(math.MaxInt64 - 1), int(math.MinInt64)}
	}},
	{"U16", kUint, true, func(r *Rec) interface{} { return uint64(r.U16) }, func() []interface{} {
		return []interface{}{uint16(0), uint16(1), uint16(2), uint16(7), uint16(65534), uint16(65535)}
	}},
	{"U64", kUint, true, func(r *Rec) interface{} { return r.U64 }, func() []interface{} {
		return []interface{}{uint64(0), uint64(1), uint64(1 << 53), uint64(1<<53 + 1), uint64(1<<53 + 2), uint64(math.MaxUint64 - 1), uint64(math.MaxUint64)}
	}},
	{"F64", kFloat, true, func(r *Rec) interface{} { return r.F64 }, func() []interface{} {
		return []interface{}{-math.MaxFloat64, float64(0), math.Copysign(0, -1), 1.5, 1.4999999999999998, math.MaxFloat64, math.Inf(1), math.Inf(-1)}
	}},
	{"F32", kFloat, true, func(r *Rec) interface{} { return float64(r.F32) }, func() []interface{} {
		return []interface{}{float32(-1.25), float32(0), float32(0.1), float32(0.2), float32(math.MaxFloat32)}
	}},
	{"S", kString, true, func(r *Rec) interface{} { return r.S }, func() []interface{} {
		return []interface{}{"", "A", "a", "b", "B", "ab", "c"}
	}},
	{"T", kTime, true, func(r *Rec) interface{} { return r.T.UTC().UnixNano() }, func() []interface{} {
		return []interface{}{tabT[0], tabT[1], tabT[2].UTC(), tabT[3], time.Unix(1700000000, 3), time.Unix(1700000000, 0), time.Unix(-1, 0)}
	}},
	{"P", kInt, false, func(r *Rec) interface{} { return int64(r.P) }, func() []interface{} {
		return []interface{}{int(0), int(1), int(2), int(3), int(-1)}
	}},
	{"L", kString, false, func(r *Rec) interface{} { return r.L }, func() []interface{} {
		return []interface{}{"", "ab", "AB", "zz", "q"}
	}},
	{"In.Tag", kString, true, func(r *Rec) interface{} { return inner(r).Tag }, func() []interface{} {
		return []interface{}{"", "x", "X", "y", "w"}
	}},
	{"In.Lvl", kInt, true, func(r *Rec) interface{} { return int64(inner(r).Lvl) }, func() []interface{} {
		return []interface{}{int(0), int(2), int(-1), int(1)}
	}},
	{"Emb.E", kInt, true, func(r *Rec) interface{} { return int64(r.E) }, func() []interface{} {
		return []interface{}{int32(math.MinInt32), int32(0), int32(1), int32(2), int32(math.MaxInt32)}
	}},
}

// canonical form of a probe for field path p: applies upper/lower like the schema does.
func canonProbe(path string, v interface{}) interface{} {
	s, ok := v.(string)
	if !ok {
		return v
	}
	switch path {
	case "K":
		return strings.ToUpper(s)
	case "L", "In.Tag":
		return strings.ToLower(s)
	}
	return s
}

// normalise maps a probe to the comparison domain of its kind.
func normalise(v interface{}) interface{} {
	switch x := v.(type) {
	case int:
		return int64(x)
	case int8:
		return int64(x)
	case int16:
		return int64(x)
	case int32:
		return int64(x)
	case int64:
		return x
	case uint:
		return uint64(x)
	case uint8:
		return uint64(x)
	case uint16:
		return uint64(x)
	case uint32:
		return uint64(x)
	case uint64:
		return x
	case float32:
		return float64(x)
	case float64:
		return x
	case string:
		return x
	case time.Time:
		return x.UTC().UnixNano()
	}
	panic(fmt.Sprintf("normalise: %T", v))
}

// cmp3 compares two normalised values of the same domain: -1, 0, 1.
func cmp3(a, b interface{}) int {
	switch x := a.(type) {
	case int64:
		y := b.(int64)
		if x < y {
			return -1
		} else if x > y {
			return 1
		}
		return 0
	case uint64:
		y := b.(uint64)
		if x < y {
			return -1
		} else if x > y {
			return 1
		}
		return 0
	case float64:
		y := b.(float64)
		if x < y {
			return -1
		} else if x > y {
			return 1
		}
		return 0
	case string:
		y := b.(string)
		if x < y {
			return -1
		} else if x > y {
			return 1
		}
		return 0
	}
	panic(fmt.Sprintf("cmp3: %T", a))
}

var operators = []string{"=", "!=", "<", "<=", ">", ">=", "~="}
