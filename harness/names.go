package main

import (
	"encoding/json"
	"fmt"
	"sort"
	"strings"
	"time"

	"github.com/0xrawsec/sod"
	"github.com/0xrawsec/sod/zzverif/vfs"
	"github.com/0xrawsec/sod/zzverif/vrt"
)

// Collection types whose names exercise the directory naming rule (lower-case
// snake form): digit runs, acronyms, single letters, underscores.

type Sha256sum struct {
	sod.Item
	X int
}
type Base64url struct {
	sod.Item
	X int
}
type X509cert struct {
	sod.Item
	X int
}
type HTTPServer struct {
	sod.Item
	X int
}
type MyHTTP2Server struct {
	sod.Item
	X int
}
type ABC struct {
	sod.Item
	X int
}
type A struct {
	sod.Item
	X int
}
type With_Underscore struct {
	sod.Item
	X int
}
type lowerAlready struct {
	sod.Item
	X int
}
type Version2 struct {
	sod.Item
	X int
}
type OneTWOThree4Five struct {
	sod.Item
	X int
}

func nameTypes() map[string]sod.Object {
	return map[string]sod.Object{
		"Sha256sum": &Sha256sum{}, "Base64url": &Base64url{}, "X509cert": &X509cert{}, "HTTPServer": &HTTPServer{},
		"MyHTTP2Server": &MyHTTP2Server{}, "ABC": &ABC{}, "A": &A{}, "With_Underscore": &With_Underscore{},
		"lowerAlready": &lowerAlready{}, "Version2": &Version2{}, "OneTWOThree4Five": &OneTWOThree4Five{},
	}
}

// dirNames creates one collection per naming type under both settings of
// LowercaseNames and returns "<type>|<lower>" -> directory name.
func dirNames() map[string]string {
	out := map[string]string{}
	names := make([]string, 0)
	types := nameTypes()
	for n := range types {
		names = append(names, n)
	}
	sort.Strings(names)
	for _, lower := range []bool{false, true} {
		for _, n := range names {
			n, lower := n, lower
			vrt.Run(vrt.Config{Sequential: true, MaxTicks: 5}, func() {
				f := vfs.New()
				vfs.Cur = f
				setGlobals(Cfg{Lower: lower})
				db := sod.Open(dbRoot)
				if err := db.Create(types[n], sod.DefaultSchema); err != nil {
					out[key(n, lower)] = "ERROR " + err.Error()
					return
				}
				db.Close()
				var dirs []string
				for _, p := range f.Paths(dbRoot) {
					rel := strings.TrimSuffix(p[len(dbRoot)+1:], "/")
					if strings.HasSuffix(p, "/") && !strings.Contains(rel, "/") {
						dirs = append(dirs, rel)
					}
				}
				out[key(n, lower)] = strings.Join(dirs, ",")
			})
		}
	}
	setGlobals(Cfg{})
	return out
}

func key(n string, lower bool) string {
	if lower {
		return n + "|lower"
	}
	return n + "|asis"
}

// ---- field descriptors of awkward shapes, compared with the pinned release's -------------

type dLeaf struct {
	Leaf string `sod:"index,lower"`
	Num  uint16 `sod:"index"`
}
type dL5 struct {
	L6  dLeaf
	PL6 *dLeaf
	S   string `sod:"upper"`
}
type dL4 struct {
	L5 dL5
	P5 *dL5
}
type dL3 struct {
	L4   dL4
	Ptr  *int
	When time.Time `sod:"index"`
}
type dL2 struct {
	L3 *dL3
	V  int `sod:"unique"`
}
type dEmb struct {
	EmbA int    `sod:"index"`
	EmbS string `sod:"lower"`
}
type dNamed string

// DescDeep gathers the shapes: value and pointer nesting down to seven path components, a
// pointer to a scalar and a pointer to a struct below the first level, time, containers,
// an embedded struct, named types, an unexported field.
type DescDeep struct {
	sod.Item
	L2     dL2
	Top    *dL2
	T      time.Time
	Arr    [2]int
	Sl     []dLeaf
	M      map[string]dLeaf
	PS     *string `sod:"index"`
	Name   dNamed  `sod:"index,unique,upper"`
	F32    float32 `sod:"index"`
	hidden int
	dEmb
}

// descriptorTable returns "<type>" -> path -> "type|constraints" as produced by the code under test.
func descriptorTable() map[string]map[string]string {
	out := map[string]map[string]string{}
	for name, o := range map[string]sod.Object{"DescDeep": &DescDeep{}, "Rec": &Rec{}, "Wide": &Wide{}, "Hk": &Hk{}} {
		func() {
			defer func() {
				if r := recover(); r != nil {
					out[name] = map[string]string{"PANIC": fmt.Sprint(r)}
				}
			}()
			m := map[string]string{}
			for p, fd := range sod.FieldDescriptors(o) {
				c, _ := json.Marshal(fd.Constraints)
				m[p] = fd.Type + "|" + string(c)
			}
			out[name] = m
		}()
	}
	return out
}
