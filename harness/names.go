package main

import (
	"sort"
	"strings"

	"github.com/0xrawsec/sod"
	"github.com/0xrawsec/sod/zzverif/vfs"
	"github.com/0xrawsec/sod/zzverif/vrt"
)

// Collection types whose names exercise the directory naming rule (lower-case
// snake form): digit runs, acronyms, single letters, underscores.

type Sha256sum struct {
	sod.Item
	X int
}
type Base64url struct {
	sod.Item
	X int
}
type X509cert struct {
	sod.Item
	X int
}
type HTTPServer struct {
	sod.Item
	X int
}
type MyHTTP2Server struct {
	sod.Item
	X int
}
type ABC struct {
	sod.Item
	X int
}
type A struct {
	sod.Item
	X int
}
type With_Underscore struct {
	sod.Item
	X int
}
type lowerAlready struct {
	sod.Item
	X int
}
type Version2 struct {
	sod.Item
	X int
}
type OneTWOThree4Five struct {
	sod.Item
	X int
}

func nameTypes() map[string]sod.Object {
	return map[string]sod.Object{
		"Sha256sum": &Sha256sum{}, "Base64url": &Base64url{}, "X509cert": &X509cert{}, "HTTPServer": &HTTPServer{},
		"MyHTTP2Server": &MyHTTP2Server{}, "ABC": &ABC{}, "A": &A{}, "With_Underscore": &With_Underscore{},
		"lowerAlready": &lowerAlready{}, "Version2": &Version2{}, "OneTWOThree4Five": &OneTWOThree4Five{},
	}
}

// dirNames creates one collection per naming type under both settings of
// LowercaseNames and returns "<type>|<lower>" -> directory name.
func dirNames() map[string]string {
	out := map[string]string{}
	names := make([]string, 0)
	types := nameTypes()
	for n := range types {
		names = append(names, n)
	}
	sort.Strings(names)
	for _, lower := range []bool{false, true} {
		for _, n := range names {
			n, lower := n, lower
			vrt.Run(vrt.Config{Sequential: true, MaxTicks: 5}, func() {
				f := vfs.New()
				vfs.Cur = f
				setGlobals(Cfg{Lower: lower})
				db := sod.Open(dbRoot)
				if err := db.Create(types[n], sod.DefaultSchema); err != nil {
					out[key(n, lower)] = "ERROR " + err.Error()
					return
				}
				db.Close()
				var dirs []string
				for _, p := range f.Paths(dbRoot) {
					rel := strings.TrimSuffix(p[len(dbRoot)+1:], "/")
					if strings.HasSuffix(p, "/") && !strings.Contains(rel, "/") {
						dirs = append(dirs, rel)
					}
				}
				out[key(n, lower)] = strings.Join(dirs, ",")
			})
		}
	}
	setGlobals(Cfg{})
	return out
}

func key(n string, lower bool) string {
	if lower {
		return n + "|lower"
	}
	return n + "|asis"
}
