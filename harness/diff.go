package main

import "strings"

// firstDiff shows the first differing lines of two observation vectors.
func firstDiff(a, b string) string {
	la, lb := strings.Split(a, "\n"), strings.Split(b, "\n")
	out := ""
	shown := 0
	for i := 0; i < len(la) || i < len(lb); i++ {
		x, y := "", ""
		if i < len(la) {
			x = la[i]
		}
		if i < len(lb) {
			y = lb[i]
		}
		if x != y {
			out += "  - " + clip(x) + "\n  + " + clip(y) + "\n"
			shown++
			if shown == 4 {
				break
			}
		}
	}
	return out
}

func clip(s string) string {
	if len(s) > 400 {
		return s[:400] + "..."
	}
	return s
}

// diffKind classifies the first difference by the kind of observation line
// (count, all, get, search on field, error probe, control): the signature axis.
func diffKind(a, b string) string {
	la, lb := strings.Split(a, "\n"), strings.Split(b, "\n")
	for i := 0; i < len(la) || i < len(lb); i++ {
		x, y := "", ""
		if i < len(la) {
			x = la[i]
		}
		if i < len(lb) {
			y = lb[i]
		}
		if x != y {
			l := x
			if l == "" {
				l = y
			}
			f := strings.Fields(l)
			if len(f) == 0 {
				return "?"
			}
			k := f[0]
			if eq := strings.Index(k, "="); eq >= 0 {
				k = k[:eq]
			}
			switch k {
			case "s", "e":
				if len(f) >= 3 {
					op := f[2]
					if k == "e" {
						// error probes: field, operator and the probe's type
						t := ""
						if len(f) >= 4 {
							t = f[3]
							if p := strings.Index(t, "("); p >= 0 {
								t = t[:p]
							}
						}
						return k + ":" + f[1] + ":" + op + ":" + t
					}
					return k + ":" + f[1] + ":" + op
				}
			case "get":
				return "get"
			}
			return k
		}
	}
	return "none"
}
