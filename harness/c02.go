package main

func init() {
	drivers["C02"] = runC02
	drivers["C03"] = runC03
}

// mutation alphabet shared by the search-oriented properties: contents with
// ties (equal index values), in-place updates that move an object inside every
// index, head/middle/tail deletions and reloads.
func alphabetContents(cfg Cfg) []Op {
	a := []Op{
		{Op: "ins", V: 0, K: 0},
		{Op: "ins", V: 1, K: 2},
		{Op: "ins", V: 2, K: 3},
		{Op: "ins", V: 3, K: 4},
		{Op: "ins", V: 1, K: 3}, // tie on every index with (1,2); same key as (2,3)
		{Op: "upd", Slot: 0, V: 3, K: 0},
		{Op: "upd", Slot: 1, V: 0, K: 2},
		{Op: "upd", Slot: 2, V: 1, K: 4},
		{Op: "del", Slot: 0},
		{Op: "del", Slot: 1},
		{Op: "del", Slot: 2},
		{Op: "sdel", Field: "S", Cmp: "<=", Probe: 1},
		{Op: "reopen"},
	}
	if cfg.Async != 0 {
		a = append(a, Op{Op: "tick"})
	}
	return a
}

func queryTrees(full bool) []Query {
	atoms := atomMenu()
	var qs []Query
	for _, a := range atoms {
		for _, b := range atoms {
			for _, or := range []bool{false, true} {
				qs = append(qs, Query{First: a, Rest: []Link{{Or: or, Atom: b}}})
			}
		}
	}
	// depth-2 chains over a sub-menu
	sub := []Atom{atoms[0], atoms[1], atoms[3], atoms[5]}
	if full {
		sub = atoms[:8]
	}
	for _, a := range sub {
		for _, b := range sub {
			for _, c := range sub {
				for m := 0; m < 4; m++ {
					qs = append(qs, Query{First: a, Rest: []Link{{Or: m&1 != 0, Atom: b}, {Or: m&2 != 0, Atom: c}}})
				}
			}
		}
	}
	return qs
}

func runC02(c *Ctx) {
	depth := 3
	cfgs := []Cfg{{}, {Cache: true, Index: 1}, {Index: 2, Compress: true}, {Async: 1, Lower: true}}
	if c.Tier == "thorough" {
		depth = 5
		cfgs = append(cfgs, Cfg{Async: 2, Index: 1, MapRev: true}, Cfg{Cache: true, Index: 2, Ext: ".v1.obj"})
	}
	trees := queryTrees(c.Tier == "thorough")
	for _, cfg := range cfgs {
		e := &Explorer{C: c, Cfg: cfg, Prop: "C02", Alphabet: alphabetContents(cfg), Depth: depth, MaxLive: 4}
		e.OnNew = func(w *World, path []Op) {
			before := w.StateKey()
			n := w.SearchSweep(true)
			c.Count("evaluations", n)
			for _, q := range trees {
				w.checkTree(q)
				if len(w.Viol) > 0 {
					return
				}
			}
			c.Count("evaluations", len(trees))
			if len(w.Viol) == 0 && w.StateKey() != before {
				// a query is a read: with the cache off nothing at all may change
				if !w.Cfg.Cache && w.Cfg.Async == 0 {
					w.fail("query-mutates-state", "evaluating search expressions changed the state of the handle (live index, cache or files)")
					return
				}
			}
			// whatever the cache did, the index must still agree with the model
			n = w.SearchSweep(false)
			c.Count("evaluations", n)
			if err := w.Control(); err != nil && w.Cfg.Async == 0 {
				w.fail("control-after-queries", "Control fails after evaluating search expressions: "+err.Error())
			}
			if len(w.M.Objs) >= 2 {
				c.Distinct("distinct_nontrivial", w.Cfg.String()+before)
			}
		}
		e.Run()
	}
	runC02Long(c)
	runBigCollection(c, "C02")
	c.Meta(map[string]interface{}{
		"rule":                  "(big collections: 150 and 300 (thorough up to 1100) objects: Count, All, AssignIndex and seven searches complete and exact, also after Close and Open.) (long indexes: every insertion sequence over a three-value domain of length 6 (thorough 8), 3 (4) configurations: after every insertion from the 4th on, after each in-place update of every object, after Close and Open, and after each deletion from the middle: every operator x probes {-1..3} on an indexed int, an indexed string and an unindexed field - Len, members, no duplicate, non-increasing order, the same as And-refinement of everything and as Or with nothing, AssignIndex, Count; two unions and a refinement built from one search; result sets of every size 1..40 reused for three unions and a refinement.) every state reached by BFS over the contents alphabet (ties, in-place updates, deletions, reloads, search-delete) is swept: every field path x every operator x every probe (stored values, neighbours, extremes, absent), 5 regex patterns per string field, all And/Or pairs over a 12-atom menu and depth-2 chains over a sub-menu; Len, Collect set and duplicates compared with a linear scan of the reference model; the handle state must be unchanged by queries. Non-trivial = states holding >= 2 objects.",
		"query_trees_per_state": len(trees),
		"configs":               cfgs,
		"depth":                 depth,
		"assumptions":           []string{"NaN probes excluded (no order); regex only on string fields"},
	})
}

// ---- C03 ------------------------------------------------------------------------------------------

func alphabetKeys(cfg Cfg) []Op {
	a := []Op{}
	for k := 0; k < NK; k++ {
		a = append(a, Op{Op: "ins", V: k % NV, K: k})
	}
	for slot := 0; slot < 2; slot++ {
		for k := 0; k < NK; k++ {
			a = append(a, Op{Op: "upd", Slot: slot, V: (k + 1) % NV, K: k})
		}
	}
	a = append(a,
		Op{Op: "del", Slot: 0}, Op{Op: "del", Slot: 1}, Op{Op: "delall"},
		Op{Op: "sdel", Field: "A", Cmp: ">=", Probe: 2, Alt: 1}, // delete by search, through a union with an empty search
		Op{Op: "many", Batch: []Mem{{Kind: "fresh", V: 0, K: 0}, {Kind: "fresh", V: 1, K: 3}}},
		Op{Op: "many", Batch: []Mem{{Kind: "fresh", V: 0, K: 2}, {Kind: "fresh", V: 1, K: 1}}}, // conflict inside the batch (N)
		Op{Op: "many", Batch: []Mem{{Kind: "slot", Slot: 0, V: 2, K: 4}, {Kind: "fresh", V: 1, K: 0}}},
		Op{Op: "reopen"})
	if cfg.Async == 0 {
		a = append(a, Op{Op: "abandon"})
	} else {
		a = append(a, Op{Op: "tick"})
	}
	return a
}

func runC03(c *Ctx) {
	depth := 3
	cfgs := []Cfg{{}, {Cache: true, Index: 1}, {Async: 1, Index: 2}, {Compress: true, Lower: true, MapRev: true}, {Index: 3}, {Index: 4}, {Index: 5, Cache: true}, {Index: 6, Async: 1}}
	depth = 4
	if c.Tier == "thorough" {
		depth = 5
	}
	for _, cfg := range cfgs {
		e := &Explorer{C: c, Cfg: cfg, Prop: "C03", Alphabet: alphabetKeys(cfg), Depth: depth, MaxLive: 3}
		e.Check = func(w *World) {
			// invariant: pairwise distinct canonical values per unique field over All()
			objs, err := w.DB.All(&Rec{})
			if err != nil {
				w.fail("all-err", "All failed: "+err.Error())
				return
			}
			ks, ns := map[string]string{}, map[int64]string{}
			for _, o := range objs {
				r := o.(*Rec)
				if u, dup := ks[r.K]; dup && u != r.UUID() {
					w.fail("dup-unique-K", "two stored objects hold K="+r.K)
				}
				if u, dup := ns[r.N]; dup && u != r.UUID() {
					w.fail("dup-unique-N", "two stored objects hold the same N")
				}
				ks[r.K], ns[r.N] = r.UUID(), r.UUID()
			}
			w.checkAll()
			c.Count("evaluations", 1)
			if len(w.Path) > 0 {
				if op := w.Path[len(w.Path)-1]; op.Op == "ins" || op.Op == "upd" || op.Op == "many" {
					c.Distinct("distinct_nontrivial", w.Cfg.String()+jsonOf(w.Path))
				}
			}
		}
		e.Run()
	}
	runC03Long(c)
	c.Meta(map[string]interface{}{
		"rule":    "(long indexes: every insertion order of 5 (thorough 7) distinct keys held by a unique string (in one configuration 300-byte strings differing in their last bytes) and a unique integer field; after every insertion from the 3rd on, after Close and Open, after moving each object to a new key and after each deletion from the middle: every key of the domain offered by a new object through either field is refused iff a stored object holds it, every object can be re-saved with its own values.) BFS over histories specialised to key collisions: two unique fields (string with upper: case variants collide; int64 incl. two values differing only beyond 2^53), in three more configurations a third one (uint64 incl. 2^53+1 and the maximum; float64 incl. -0 and the extremes; time.Time incl. two zones), 5 key classes, updates onto foreign/own/released keys, batches with internal conflicts, reopen/abandon anywhere. Each call's accept/reject decision is compared with the reference (IsUnique iff a different stored object holds the canonical value) in both directions; invariant on All() in every state. Non-trivial = histories ending in a write.",
		"configs": cfgs, "depth": depth,
	})
}
