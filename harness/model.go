package main

import (
	"regexp"
	"sort"
)

// Model is the reference: a map from uuid to the canonicalised record.
// Deliberately boring: no index, no bisection, linear scans.
type Model struct {
	Objs map[string]*Rec
	// UniqueP: the custom schema of the configuration declares P (otherwise unindexed) and S (plain string, no case constraint) unique
	UniqueP bool
	// UniqueV: the custom schema declares this one field unique: "U64" (unsigned), "F64" (float) or "T" (time)
	UniqueV string
}

func NewModel() *Model { return &Model{Objs: map[string]*Rec{}} }

func (m *Model) Clone() *Model {
	c := NewModel()
	c.UniqueP = m.UniqueP
	c.UniqueV = m.UniqueV
	for u, r := range m.Objs {
		c.Objs[u] = cloneRec(r)
	}
	return c
}

func (m *Model) UUIDs() []string {
	out := make([]string, 0, len(m.Objs))
	for u := range m.Objs {
		out = append(out, u)
	}
	sort.Strings(out)
	return out
}

// conflict reports whether storing r (canonical) under uuid would violate a
// uniqueness constraint against the stored objects.
func (m *Model) conflict(uuid string, r *Rec) bool {
	for u, o := range m.Objs {
		if u == uuid {
			continue
		}
		if m.clash(o, r) {
			return true
		}
	}
	return false
}

// clash tells whether two canonical records may not be stored together.
func (m *Model) clash(a, b *Rec) bool {
	return a.K == b.K || a.N == b.N || (m.UniqueP && (a.P == b.P || a.S == b.S)) ||
		(m.UniqueV == "U64" && a.U64 == b.U64) || (m.UniqueV == "F64" && a.F64 == b.F64) || (m.UniqueV == "T" && a.T.UnixNano() == b.T.UnixNano())
}

// expectSingle returns the expected outcome class of InsertOrUpdate(r) where r
// carries uuid (possibly empty = new object).
func (m *Model) expectSingle(uuid string, r *Rec) string {
	c := cloneRec(r)
	canon(c)
	if c.Validate() != nil {
		return eInvalid
	}
	if m.conflict(uuid, c) {
		return eUnique
	}
	return eOK
}

// store records the accepted object under uuid.
func (m *Model) store(uuid string, r *Rec) {
	c := cloneRec(r)
	canon(c)
	c.Initialize(uuid)
	m.Objs[uuid] = c
}

// match evaluates one comparison on one stored object.
func match(spec *FieldSpec, r *Rec, op string, probe interface{}) bool {
	val := spec.get(r)
	p := normalise(canonProbe(spec.Path, probe))
	switch op {
	case "=":
		return cmp3(val, p) == 0
	case "!=":
		return cmp3(val, p) != 0
	case "<":
		return cmp3(val, p) < 0
	case "<=":
		return cmp3(val, p) <= 0
	case ">":
		return cmp3(val, p) > 0
	case ">=":
		return cmp3(val, p) >= 0
	case "~=":
		s, ok := val.(string)
		ps, ok2 := p.(string)
		if !ok || !ok2 {
			return false
		}
		re, err := regexp.Compile(ps)
		if err != nil {
			return false
		}
		return re.MatchString(s)
	}
	panic("unknown operator " + op)
}

// search is the linear-scan denotation of a single comparison: the set of uuids.
func (m *Model) search(spec *FieldSpec, op string, probe interface{}) map[string]bool {
	out := map[string]bool{}
	for u, r := range m.Objs {
		if match(spec, r, op, probe) {
			out[u] = true
		}
	}
	return out
}

func specByPath(p string) *FieldSpec {
	for i := range fieldSpecs {
		if fieldSpecs[i].Path == p {
			return &fieldSpecs[i]
		}
	}
	return nil
}

func setKeys(s map[string]bool) []string {
	out := make([]string, 0, len(s))
	for k := range s {
		out = append(out, k)
	}
	sort.Strings(out)
	return out
}

func setEq(a, b map[string]bool) bool {
	if len(a) != len(b) {
		return false
	}
	for k := range a {
		if !b[k] {
			return false
		}
	}
	return true
}

func setAnd(a, b map[string]bool) map[string]bool {
	out := map[string]bool{}
	for k := range a {
		if b[k] {
			out[k] = true
		}
	}
	return out
}

func setOr(a, b map[string]bool) map[string]bool {
	out := map[string]bool{}
	for k := range a {
		out[k] = true
	}
	for k := range b {
		out[k] = true
	}
	return out
}
