package main

import (
	"fmt"
	"io"
	"os"
	"path/filepath"
	"runtime"
	"sort"
	"strconv"
	"strings"
	"sync"
	"syscall"
	"time"

	"github.com/0xrawsec/sod/zzverif/vfs"
	"github.com/0xrawsec/sod/zzverif/vos"
	"github.com/0xrawsec/sod/zzverif/vrt"
)

// Conformance of the environment models with the real thing (DESIGN 2.4). A
// mismatch is an engine failure (panic => exit 2), never a property verdict.

func selfTestExtra(c *Ctx) {
	conformVFS(c)
	conformRWMutex(c)
}

// ---- vfs against the kernel ------------------------------------------------------------------

type fsStep struct {
	Op   string
	P, Q string
}

func errClass(err error) string {
	switch {
	case err == nil:
		return "ok"
	case os.IsNotExist(err):
		return "notexist"
	case os.IsExist(err):
		return "exist"
	}
	for _, e := range []syscall.Errno{syscall.EISDIR, syscall.ENOTDIR, syscall.ENOTEMPTY, syscall.EINVAL} {
		if strings.Contains(err.Error(), e.Error()) {
			return e.Error()
		}
	}
	return "other:" + err.Error()
}

// runFS executes steps through the vos API below root and renders every result.
func runFS(root string, steps []fsStep) string {
	var sb strings.Builder
	for _, st := range steps {
		p := filepath.Join(root, st.P)
		switch st.Op {
		case "mkdirall":
			fmt.Fprintf(&sb, "%s;", errClass(vos.MkdirAll(p, 0700)))
		case "mkdir":
			fmt.Fprintf(&sb, "%s;", errClass(vos.Mkdir(p, 0700)))
		case "writefile":
			fmt.Fprintf(&sb, "%s;", errClass(vos.WriteFile(p, []byte("data-"+st.P), 0600)))
		case "create":
			f, err := vos.OpenFile(p, vos.O_CREATE|vos.O_TRUNC|vos.O_RDWR, 0600)
			if err != nil {
				fmt.Fprintf(&sb, "%s;", errClass(err))
				break
			}
			_, werr := f.Write([]byte("xy"))
			cerr := f.Close()
			fmt.Fprintf(&sb, "ok,%s,%s;", errClass(werr), errClass(cerr))
		case "stat":
			fi, err := vos.Stat(p)
			if err != nil {
				fmt.Fprintf(&sb, "%s;", errClass(err))
				break
			}
			size := fi.Size()
			if fi.IsDir() {
				size = 0
			}
			fmt.Fprintf(&sb, "dir=%v,reg=%v,size=%d;", fi.IsDir(), fi.Mode().IsRegular(), size)
		case "read":
			f, err := vos.Open(p)
			if err != nil {
				fmt.Fprintf(&sb, "%s;", errClass(err))
				break
			}
			d, rerr := io.ReadAll(f)
			f.Close()
			fmt.Fprintf(&sb, "%q,%s;", d, errClass(rerr))
		case "readdir":
			es, err := vos.ReadDir(p)
			if err != nil {
				fmt.Fprintf(&sb, "%s;", errClass(err))
				break
			}
			var names []string
			for _, e := range es {
				names = append(names, fmt.Sprintf("%s:%v", e.Name(), e.IsDir()))
			}
			fmt.Fprintf(&sb, "%v;", names)
		case "remove":
			fmt.Fprintf(&sb, "%s;", errClass(vos.Remove(p)))
		case "removeall":
			fmt.Fprintf(&sb, "%s;", errClass(vos.RemoveAll(p)))
		case "rename":
			fmt.Fprintf(&sb, "%s;", errClass(vos.Rename(p, filepath.Join(root, st.Q))))
		}
	}
	// final tree
	var walk func(dir string)
	walk = func(dir string) {
		es, err := vos.ReadDir(dir)
		if err != nil {
			return
		}
		for _, e := range es {
			full := filepath.Join(dir, e.Name())
			rel, _ := filepath.Rel(root, full)
			if e.IsDir() {
				fmt.Fprintf(&sb, "%s/;", rel)
				walk(full)
			} else {
				d, _ := vos.ReadFile(full)
				fmt.Fprintf(&sb, "%s=%q;", rel, d)
			}
		}
	}
	sb.WriteString("|tree:")
	walk(root)
	return sb.String()
}

func conformVFS(c *Ctx) {
	paths := []string{"d", "d/f", "d/g", "d/sub", "d/sub/f", "missing/f"}
	ops := []string{"mkdirall", "mkdir", "writefile", "create", "stat", "read", "readdir", "remove", "removeall"}
	var single []fsStep
	for _, op := range ops {
		for _, p := range paths {
			single = append(single, fsStep{Op: op, P: p})
		}
	}
	for _, p := range paths[:5] {
		for _, q := range paths[:5] {
			if p != q {
				single = append(single, fsStep{Op: "rename", P: p, Q: q})
			}
		}
	}
	var seqs [][]fsStep
	for _, a := range single {
		seqs = append(seqs, []fsStep{a})
		for _, b := range single {
			seqs = append(seqs, []fsStep{a, b})
		}
	}
	// length 3: creators first, then every pair of a reduced menu
	creators := []fsStep{{Op: "mkdirall", P: "d/sub"}, {Op: "mkdirall", P: "d"}}
	for _, a := range creators {
		for i, b := range single {
			for j, x := range single {
				if (i+j)%3 == c.Shard%3 {
					seqs = append(seqs, []fsStep{a, b, x})
				}
			}
		}
	}
	tmp, err := os.MkdirTemp("", "verif-vfsconf-")
	if err != nil {
		panic(err)
	}
	defer os.RemoveAll(tmp)
	n := 0
	for i, seq := range seqs {
		if i%c.NShards != c.Shard {
			continue
		}
		// real
		vfs.Cur = nil
		real := filepath.Join(tmp, strconv.Itoa(i))
		os.MkdirAll(real, 0700)
		want := runFS(real, seq)
		os.RemoveAll(real)
		// model
		m := vfs.New()
		m.PutDir("/r")
		vfs.Cur = m
		got := runFS("/r", seq)
		vfs.Cur = nil
		if got != want {
			panic(fmt.Sprintf("selftest: vfs differs from the kernel on %v:\n  kernel: %s\n  vfs:    %s", seq, want, got))
		}
		n++
	}
	c.Count("vfs_conformance_sequences", n)
	c.Count("transitions", n)
	c.Count("traces_validated_against_impl", n)
}

// ---- RWMutex model against sync.RWMutex ----------------------------------------------------

// lock programs: per thread a sequence over R (RLock), r (RUnlock), W (Lock), w (Unlock)
func lockSeqs(maxLen int) []string {
	var out []string
	var rec func(cur string, readers int, writer bool)
	rec = func(cur string, readers int, writer bool) {
		if len(cur) > 0 {
			out = append(out, cur)
		}
		if len(cur) == maxLen {
			return
		}
		// acquiring while holding the write lock, or Lock while holding a read lock, self-deadlocks:
		// allowed as the last operation only (the thread parks forever)
		if !writer {
			rec(cur+"R", readers+1, false)
		}
		if readers > 0 {
			rec(cur+"r", readers-1, writer)
		}
		if !writer && readers == 0 {
			rec(cur+"W", 0, true)
		}
		if writer {
			rec(cur+"w", readers, false)
		}
	}
	rec("", 0, false)
	return out
}

// modelTraces explores every schedule of prog in the model and returns the distinct traces.
func modelTraces(prog []string) [][]vrt.TraceEv {
	seen := map[string]bool{}
	var out [][]vrt.TraceEv
	vrt.TraceOn = true
	defer func() { vrt.TraceOn = false }()
	exploreSchedules(8, 3000, func(prefix []int) *vrt.Exec {
		var m vrt.RW
		return vrt.Run(vrt.Config{Prefix: prefix, MaxTicks: 0}, func() {
			ids := make([]int, len(prog))
			for i, seq := range prog {
				seq := seq
				ids[i] = vrt.GoNamed(fmt.Sprintf("t%d", i), func() {
					for _, op := range seq {
						switch op {
						case 'R':
							vrt.RLockModel(&m)
						case 'r':
							vrt.RUnlockModel(&m)
						case 'W':
							vrt.LockModel(&m)
						case 'w':
							vrt.UnlockModel(&m)
						}
					}
				})
			}
			for _, id := range ids {
				vrt.Join(id)
			}
		})
	}, func(x *vrt.Exec, choices []int) bool {
		key := fmt.Sprint(x.Trace, x.Deadlock)
		if !seen[key] {
			seen[key] = true
			out = append(out, x.Trace)
		}
		return true
	})
	return out
}

type realThread struct {
	cmd  chan byte
	done chan struct{}
	gid  string
}

func goid() string {
	buf := make([]byte, 64)
	buf = buf[:runtime.Stack(buf, false)]
	f := strings.Fields(string(buf))
	if len(f) >= 2 {
		return f[1]
	}
	return "?"
}

// waitState returns the wait reason of goroutine gid ("" if running / not found).
func waitState(gid string) string {
	buf := make([]byte, 1<<16)
	buf = buf[:runtime.Stack(buf, true)]
	for _, l := range strings.Split(string(buf), "\n") {
		if strings.HasPrefix(l, "goroutine "+gid+" [") {
			return l[strings.Index(l, "[")+1 : strings.Index(l, "]")]
		}
	}
	return ""
}

func parkedOnLock(state string) bool {
	return strings.HasPrefix(state, "sync.RWMutex.") || strings.HasPrefix(state, "sync.Mutex.") || strings.HasPrefix(state, "semacquire")
}

// replayReal drives real goroutines over a real sync.RWMutex in the order of
// trace and compares "returns" / "parks" with the model at every step.
func replayReal(prog []string, trace []vrt.TraceEv) string {
	var mu sync.RWMutex
	ths := make([]*realThread, len(prog))
	for i := range prog {
		t := &realThread{cmd: make(chan byte), done: make(chan struct{}, 1)}
		ths[i] = t
		ready := make(chan struct{})
		go func() {
			t.gid = goid()
			close(ready)
			for op := range t.cmd {
				switch op {
				case 'R':
					mu.RLock()
				case 'r':
					mu.RUnlock()
				case 'W':
					mu.Lock()
				case 'w':
					mu.Unlock()
				}
				t.done <- struct{}{}
			}
		}()
		<-ready
	}
	// model thread ids are 1.. (0 is the driver)
	pending := map[int]bool{}
	finished := func(t *realThread, park bool) string {
		deadline := time.Now().Add(5 * time.Second)
		for {
			select {
			case <-t.done:
				return "returned"
			default:
			}
			if parkedOnLock(waitState(t.gid)) {
				// stable condition: a parked goroutine stays parked until somebody releases
				return "parked"
			}
			if time.Now().After(deadline) {
				return "undecided"
			}
			runtime.Gosched()
			if !park {
				time.Sleep(20 * time.Microsecond)
			}
		}
	}
	for i, ev := range trace {
		ti := ev.Thread - 1
		if ti < 0 || ti >= len(ths) {
			return fmt.Sprintf("trace names thread %d", ev.Thread)
		}
		t := ths[ti]
		switch ev.Kind {
		case 'a':
			op := byte('R')
			if ev.Write {
				op = 'W'
			}
			t.cmd <- op
			immediate := i+1 < len(trace) && trace[i+1].Thread == ev.Thread && trace[i+1].Kind == 'g'
			got := finished(t, !immediate)
			if immediate && got != "returned" {
				return fmt.Sprintf("step %d: model says thread %d acquires at once, the real lock %s", i, ti, got)
			}
			if !immediate && got != "parked" {
				return fmt.Sprintf("step %d: model says thread %d parks, the real lock %s", i, ti, got)
			}
			if !immediate {
				pending[ti] = true
			}
		case 'g':
			if pending[ti] {
				// granted later by somebody's release: the real goroutine must complete now
				deadline := time.Now().Add(5 * time.Second)
				ok := false
				for time.Now().Before(deadline) {
					select {
					case <-t.done:
						ok = true
					default:
					}
					if ok {
						break
					}
					runtime.Gosched()
					time.Sleep(20 * time.Microsecond)
				}
				if !ok {
					return fmt.Sprintf("step %d: model grants the lock to thread %d, the real goroutine stays %s", i, ti, waitState(t.gid))
				}
				delete(pending, ti)
			}
		case 'u':
			op := byte('r')
			if ev.Write {
				op = 'w'
			}
			t.cmd <- op
			<-t.done
		}
	}
	// whoever is still pending in the model must be parked for real
	for ti := range pending {
		if st := waitState(ths[ti].gid); !parkedOnLock(st) {
			return fmt.Sprintf("end: model leaves thread %d blocked, the real goroutine is %q", ti, st)
		}
	}
	// release the goroutines that are not blocked (blocked ones are leaked on purpose)
	for ti, t := range ths {
		if !pending[ti] {
			close(t.cmd)
		}
	}
	return ""
}

func conformRWMutex(c *Ctx) {
	seqs2 := lockSeqs(3)
	seqs3 := lockSeqs(2)
	var progs [][]string
	for _, a := range seqs2 {
		for _, b := range seqs2 {
			progs = append(progs, []string{a, b})
		}
	}
	for _, a := range seqs3 {
		for _, b := range seqs3 {
			for _, d := range seqs3 {
				progs = append(progs, []string{a, b, d})
			}
		}
	}
	sort.SliceStable(progs, func(i, j int) bool { return len(progs[i]) < len(progs[j]) })
	ntr := 0
	for i, prog := range progs {
		if i%c.NShards != c.Shard {
			continue
		}
		for _, tr := range modelTraces(prog) {
			if msg := replayReal(prog, tr); msg != "" {
				panic(fmt.Sprintf("selftest: the RWMutex model disagrees with sync.RWMutex on program %v, trace %v: %s", prog, tr, msg))
			}
			ntr++
		}
	}
	c.Count("rwmutex_conformance_programs", len(progs)/c.NShards)
	c.Count("rwmutex_conformance_traces", ntr)
	c.Count("traces_validated_against_impl", ntr)
	c.Count("transitions", ntr)
}
