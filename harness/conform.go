package main

func selfTestExtra(c *Ctx) {}
