package main

func init() {
	drivers["C04"] = runC04
	drivers["C12"] = runC12
}

func alphabetMixed(cfg Cfg) []Op {
	a := []Op{
		{Op: "ins", V: 0, K: 0},
		{Op: "ins", V: 1, K: 2},
		{Op: "ins", V: 3, K: 4},
		{Op: "ins", V: 2, K: 3},
		{Op: "ins", V: 1, K: 1},
		{Op: "upd", Slot: 0, V: 3, K: 0},
		{Op: "upd", Slot: 1, V: 2, K: 3},
		{Op: "upd", Slot: 1, V: 0, K: 2},
		{Op: "del", Slot: 0},
		{Op: "del", Slot: 1},
		{Op: "sdel", Field: "A", Cmp: ">=", Probe: 2},
		{Op: "many", Batch: []Mem{{Kind: "fresh", V: 2, K: 0}, {Kind: "fresh", V: 3, K: 2}}},
		{Op: "reopen"},
		{Op: "createflip"}, // re-created with a compatible schema (other compression flag): the stored layout wins
	}
	if cfg.Async == 0 {
		a = append(a, Op{Op: "abandon"})
	} else {
		a = append(a, Op{Op: "tick"}, Op{Op: "flushall"})
	}
	return a
}

func runC04(c *Ctx) {
	depth := 3
	cfgs := []Cfg{{}, {Cache: true, Compress: true}, {Async: 1, Index: 2}, {Index: 1, Lower: true, Ext: ".v1.obj"}, {Async: 2, MapRev: true}}
	if c.Tier == "thorough" {
		depth = 5
		cfgs = cfgQuick
	}
	opt := ObsOpt{Ordered: true, Trees: true}
	for _, cfg := range cfgs {
		cfg := cfg
		ord := func(p string) bool { return indexedUnder(cfg, p) }
		e := &Explorer{C: c, Cfg: cfg, Prop: "C04", Alphabet: alphabetMixed(cfg), Depth: depth, MaxLive: 4}
		variants := []string{"close"}
		if cfg.Async == 0 {
			variants = append(variants, "abandon")
		}
		for _, variant := range variants {
			variant := variant
			e.OnNewList = append(e.OnNewList, func(w *World, path []Op) {
				before := w.Observe(opt, ord)
				if variant == "close" {
					if err := w.DB.Close(); err != nil {
						w.fail("close-err", "Close returned "+err.Error())
						return
					}
				}
				w.open()
				if len(w.Viol) > 0 {
					return
				}
				after := w.Observe(opt, ord)
				if before != after {
					w.fail("reopen-differs|"+variant+"|"+diffKind(before, after), "observations differ after "+variant+"+Open:\n"+firstDiff(before, after))
					return
				}
				// and the reference model still explains the new handle
				w.SweepBasic()
				w.SearchSweep(false)
				c.Count("evaluations", 1)
				if len(w.M.Objs) > 0 {
					c.Distinct("distinct_nontrivial", cfg.String()+variant+before)
				}
			})
		}
		e.Run()
	}
	runBigC04(c)
	c.Meta(map[string]interface{}{
		"rule":    "(large values: one object with an unindexed field of 0 .. 1 MiB+7 bytes (thorough up to 3 MiB; one compressed object of 33 MiB), repetitive and pseudo-random content, 4 (6) configurations incl. compression: read back identically by the live handle, by a new handle twice, through Get, All and an unindexed search, and after Repair rebuilt the lost index.) at every state reached by BFS (contents + key alphabet, value tables with 2^53+1, MaxInt64, MaxUint64, ns timestamps) the complete observation vector (all reads, every field x operator x probe with result order on indexed fields, AssignIndex, And/Or pairs) is taken, the handle is closed (or, in synchronous configurations, abandoned) and a new one opened on the same directory, and the vector must be identical; reopen/abandon are also alphabet letters so later calls must keep refining the reference. Non-trivial = distinct non-empty observation vectors compared.",
		"configs": cfgs, "depth": depth,
	})
}

// ---- C12 ------------------------------------------------------------------------------------------

func runC12(c *Ctx) {
	depth := 3
	ref := Cfg{}
	// configurations that change constraints (Index 3 declares more unique fields)
	// change semantics, not storage: they are not part of this comparison
	var others []Cfg
	for _, x := range cfgQuick[1:] {
		if x.Index != 3 {
			others = append(others, x)
		}
	}
	if c.Tier == "thorough" {
		depth = 4
		others = nil
		for _, x := range allCfgs() {
			if x != ref {
				others = append(others, x)
			}
		}
	}
	alphabet := []Op{
		{Op: "ins", V: 0, K: 0},
		{Op: "ins", V: 1, K: 2},
		{Op: "ins", V: 2, K: 3},
		{Op: "ins", V: 1, K: 1},
		{Op: "upd", Slot: 0, V: 3, K: 0},
		{Op: "upd", Slot: 0, V: 0, K: 2},
		{Op: "del", Slot: 0},
		{Op: "delall"},
		{Op: "sdel", Field: "P", Cmp: "=", Probe: 1},
		{Op: "many", Batch: []Mem{{Kind: "fresh", V: 2, K: 0}, {Kind: "fresh", V: 3, K: 2}}},
		{Op: "many", Batch: []Mem{{Kind: "fresh", V: 2, K: 4}, {Kind: "invalid", V: 3, K: 2}}},
		{Op: "reopen"},
		{Op: "getabsent"},
		{Op: "insnan", V: 2, K: 4},
	}
	opt := ObsOpt{ErrProbes: true, Integrity: true, Trees: true}
	trace := func(cfg Cfg, path []Op) (string, []Violation) {
		var obs string
		res := RunPath(cfg, "C12", nil, func(w *World) {
			for _, op := range path {
				if !w.Applicable(op) {
					obs = "n/a"
					return
				}
				w.Apply(op)
			}
			if len(w.Viol) == 0 {
				obs = w.Observe(opt, nil)
			}
		})
		return obs, res.W.Viol
	}
	// enumerate all paths up to depth (no state merging: the oracle is per history)
	var paths [][]Op
	var gen func(p []Op, d int)
	gen = func(p []Op, d int) {
		if len(p) > 0 {
			paths = append(paths, append([]Op{}, p...))
		}
		if d == 0 {
			return
		}
		for _, op := range alphabet {
			gen(append(p, op), d-1)
		}
	}
	gen(nil, depth)
	paths = append(paths, []Op{})
	for i, p := range paths {
		if i%c.NShards != c.Shard {
			continue
		}
		if c.Expired() {
			c.Count("depth_incomplete", 1)
			break
		}
		refObs, viol := trace(ref, p)
		if refObs == "n/a" {
			continue
		}
		if len(viol) > 0 {
			// the reference configuration itself diverges from the model: C01's business, skip the history
			c.Count("histories_skipped_reference_violates", 1)
			continue
		}
		c.Count("transitions", len(p))
		c.Count("paths_replayed", 1)
		if c.Distinct("states", refObs) && len(p) > 1 {
			c.Distinct("distinct_nontrivial", refObs)
		}
		for _, cfg := range others {
			obs, viol := trace(cfg, p)
			c.Count("evaluations", 1)
			c.Count("paths_replayed", 1)
			if len(viol) > 0 {
				for _, v := range viol {
					v.Sig = "C12|" + v.Sig[4:]
					c.Violation(v)
				}
				continue
			}
			if obs != refObs {
				axes := diffAxes(ref, cfg)
				c.Violation(Violation{Sig: "C12|config-differs|" + diffKind(refObs, obs), What: "the same history observes different results under " + cfg.String() + " (differs from reference in " + axes + "):\n" + firstDiff(refObs, obs), Cfg: cfg, Path: p})
			}
		}
		if i < 3*c.NShards {
			c.Sample(map[string]interface{}{"history": p, "configs_compared": len(others)})
		}
	}
	c.Max("depth_completed", depth)
	c.Meta(map[string]interface{}{
		"rule":      "every history up to the depth over the alphabet is executed under the reference configuration (sync, no cache, no compression, struct-tag indexes) and under every other configuration; the normalised observation vector (all reads, Exist, every field x operator x probe as a set, And/Or pairs, ill-formed queries: unknown field/operator, mistyped value, invalid pattern, on indexed and unindexed fields; Control after FlushAllAndCommit) must be identical. Non-trivial = distinct reference observation vectors of histories with >= 2 calls.",
		"reference": ref, "configs_compared": len(others), "depth": depth, "histories": len(paths),
	})
}

func diffAxes(a, b Cfg) string {
	s := ""
	if a.Cache != b.Cache {
		s += "cache "
	}
	if a.Compress != b.Compress {
		s += "compress "
	}
	if a.Async != b.Async {
		s += "async "
	}
	if a.Lower != b.Lower {
		s += "lowercase "
	}
	if a.Ext != b.Ext {
		s += "extension "
	}
	if a.Index != b.Index {
		s += "indexing "
	}
	if a.MapRev != b.MapRev {
		s += "maporder "
	}
	return s
}
