// Command harness is the worker of every check: it is built by cmd/check against
// the rewritten copy of package sod (go build -overlay) and explores one shard of
// one property's bounded space, reporting on stdout as JSON lines.
package main

import (
	"bufio"
	"encoding/json"
	"flag"
	"fmt"
	"hash/fnv"
	"os"
	"runtime"
	"runtime/debug"
	"sort"
	"strings"
	"time"
)

// Ctx is the reporting context of one worker.
type Ctx struct {
	Prop    string
	Tier    string
	Shard   int
	NShards int
	Seed    int64

	out      *bufio.Writer
	enc      *json.Encoder
	counts   map[string]int64
	keys     map[string]map[uint64]struct{}
	samples  int
	viols    map[string]bool
	deadline time.Time
	capHit   bool
}

type line struct {
	T      string                 `json:"t"`
	Counts map[string]int64       `json:"counts,omitempty"`
	Key    string                 `json:"key,omitempty"`
	Keys   []uint64               `json:"keys,omitempty"`
	Sample interface{}            `json:"sample,omitempty"`
	Viol   *Violation             `json:"viol,omitempty"`
	Meta   map[string]interface{} `json:"meta,omitempty"`
	Msg    string                 `json:"msg,omitempty"`
}

func (c *Ctx) emit(l line) {
	if err := c.enc.Encode(l); err != nil {
		panic(err)
	}
}

// Count adds n to counter key (summed over workers by the parent).
func (c *Ctx) Count(key string, n int) { c.counts[key] += int64(n) }

// Max keeps the maximum of a gauge (reported as counter "max:<key>").
func (c *Ctx) Max(key string, n int) {
	if int64(n) > c.counts["max:"+key] {
		c.counts["max:"+key] = int64(n)
	}
}

// Distinct records a member of a set whose size is a coverage number (unioned by the parent).
func (c *Ctx) Distinct(set string, v string) bool {
	h := fnv.New64a()
	h.Write([]byte(v))
	k := h.Sum64()
	m := c.keys[set]
	if m == nil {
		m = map[uint64]struct{}{}
		c.keys[set] = m
	}
	if _, ok := m[k]; ok {
		return false
	}
	m[k] = struct{}{}
	return true
}

// Sample writes out one actual case (limited number per worker).
func (c *Ctx) Sample(v interface{}) {
	if c.samples >= 3 {
		return
	}
	c.samples++
	c.emit(line{T: "sample", Sample: v})
}

// Violation reports a violation once per signature and worker.
func (c *Ctx) Violation(v Violation) {
	if c.viols[v.Sig] {
		c.Count("violations_duplicate_signature", 1)
		return
	}
	c.viols[v.Sig] = true
	c.emit(line{T: "viol", Viol: &v})
	c.out.Flush()
}

// Meta sends descriptive evidence fields (shard 0 only needs to, but all may).
func (c *Ctx) Meta(m map[string]interface{}) { c.emit(line{T: "meta", Meta: m}) }

// Expired tells whether the worker's internal deadline has passed (a cap, not a verdict).
func (c *Ctx) Expired() bool {
	if !c.deadline.IsZero() && time.Now().After(c.deadline) {
		c.capHit = true
		return true
	}
	return false
}

func (c *Ctx) finish() {
	if c.capHit {
		c.counts["cap_hit"] = 1
	}
	c.emit(line{T: "counts", Counts: c.counts})
	for set, m := range c.keys {
		ks := make([]uint64, 0, len(m))
		for k := range m {
			ks = append(ks, k)
		}
		sort.Slice(ks, func(i, j int) bool { return ks[i] < ks[j] })
		for len(ks) > 0 {
			n := len(ks)
			if n > 20000 {
				n = 20000
			}
			c.emit(line{T: "keys", Key: set, Keys: ks[:n]})
			ks = ks[n:]
		}
	}
	c.emit(line{T: "done"})
	c.out.Flush()
}

var drivers = map[string]func(*Ctx){}

func main() {
	prop := flag.String("prop", "", "property id or self-test name")
	tier := flag.String("tier", "quick", "quick|thorough")
	shard := flag.Int("shard", 0, "shard index")
	nshards := flag.Int("nshards", 1, "number of shards")
	seed := flag.Int64("seed", 0, "VERIF_SEED (recorded, nothing random depends on it)")
	budget := flag.Duration("budget", 0, "internal deadline of this worker (0 = none)")
	replay := flag.String("replay", "", "replay file")
	flag.Parse()
	runtime.GOMAXPROCS(1)
	debug.SetGCPercent(200)
	// a worker that eats memory is an engine problem (never a verdict): stop before the OOM killer does
	go func() {
		var ms runtime.MemStats
		for {
			time.Sleep(2 * time.Second)
			runtime.ReadMemStats(&ms)
			if ms.HeapAlloc > 6<<30 {
				fmt.Fprintf(os.Stderr, "harness: heap above 6 GiB (%d MiB), giving up\n", ms.HeapAlloc>>20)
				os.Exit(3)
			}
		}
	}()

	c := &Ctx{Prop: *prop, Tier: *tier, Shard: *shard, NShards: *nshards, Seed: *seed,
		counts: map[string]int64{}, keys: map[string]map[uint64]struct{}{}, viols: map[string]bool{}}
	c.out = bufio.NewWriterSize(os.Stdout, 1<<16)
	c.enc = json.NewEncoder(c.out)
	if *budget > 0 {
		c.deadline = time.Now().Add(*budget)
	}
	if *replay != "" {
		runReplay(c, *replay)
		c.finish()
		return
	}
	d, ok := drivers[strings.ToUpper(*prop)]
	if !ok {
		d, ok = drivers[*prop]
	}
	if !ok {
		fmt.Fprintf(os.Stderr, "harness: unknown property %q\n", *prop)
		os.Exit(2)
	}
	d(c)
	c.finish()
}

// runReplay re-executes the case recorded in a replay artefact (no search):
// an API history under its configuration with the full sweeps, or a concurrent
// program under its recorded schedule. A reproduced problem is reported again.
func runReplay(c *Ctx, file string) {
	data, err := os.ReadFile(file)
	if err != nil {
		fmt.Fprintln(os.Stderr, "replay:", err)
		os.Exit(2)
	}
	var doc struct {
		Property  string          `json:"property"`
		Signature string          `json:"signature"`
		Cfg       Cfg             `json:"cfg"`
		Path      []Op            `json:"path"`
		More      json.RawMessage `json:"more"`
	}
	if err := json.Unmarshal(data, &doc); err != nil {
		fmt.Fprintln(os.Stderr, "replay:", err)
		os.Exit(2)
	}
	var more struct {
		Program    *Prog `json:"program"`
		Schedule   []int `json:"schedule"`
		CrashIndex *int  `json:"crash_index"`
		Cut        int   `json:"cut"`
	}
	json.Unmarshal(doc.More, &more)
	c.Count("transitions", 1)
	c.Distinct("states", file)
	switch {
	case more.Program != nil:
		r := runProg(*more.Program, more.Schedule, 99, func(w *World, r *ExecResult) {
			objs, err := w.DB.All(&Rec{})
			if err != nil {
				r.Final = "err:" + err.Error()
			} else {
				r.Final = "ok:" + objSet(objs)
			}
		})
		x := r.X
		fmt.Fprintf(os.Stderr, "replayed program %s under schedule %v: %d decisions, deadlock=%v horizon=%v panics=%d\n", jsonOf(more.Program), more.Schedule, x.NPoints, x.Deadlock, x.Horizon, len(x.Panics))
		for _, h := range r.Hist {
			fmt.Fprintf(os.Stderr, "  thread %d %s -> %s [inv %d resp %d]\n", h.Thread, jsonOf(h.Call), clip(h.Res), h.Inv, h.Resp)
		}
		switch {
		case x.BadPrefix:
			fmt.Fprintln(os.Stderr, "replay: the schedule no longer fits the program (divergence)")
			os.Exit(2)
		case x.Deadlock || x.Horizon:
			c.Violation(Violation{Sig: doc.Signature, What: fmt.Sprintf("reproduced: calls wait for each other forever: %v", x.Blocked), Cfg: more.Program.Cfg})
		case len(x.Panics) > 0:
			c.Violation(Violation{Sig: doc.Signature, What: "reproduced: panic: " + x.Panics[0].Value, Cfg: more.Program.Cfg})
		case r.Started && r.W != nil && len(more.Program.Threads) > 1:
			if order, _ := linearizable(r.W.M, r.W.Slots, r.Hist, r.Final); order == nil {
				c.Violation(Violation{Sig: doc.Signature, What: "reproduced: the history is not linearizable", Cfg: more.Program.Cfg})
			}
		}
	case more.CrashIndex != nil:
		rec := Record(doc.Cfg, doc.Property, doc.Path)
		call := len(doc.Path) + 1
		if *more.CrashIndex < len(rec.Log) {
			call = rec.Log[*more.CrashIndex].Call
		}
		for _, v := range checkCrash(rec, crashImage{K: *more.CrashIndex, Cut: more.Cut, Call: call}, doc.Property) {
			c.Violation(v)
		}
	default:
		res := RunPath(doc.Cfg, doc.Property, nil, func(w *World) {
			for _, op := range doc.Path {
				if !w.Applicable(op) {
					fmt.Fprintln(os.Stderr, "replay: history not applicable at", jsonOf(op))
					return
				}
				w.Apply(op)
				fmt.Fprintf(os.Stderr, "  %s -> %d problem(s) so far\n", jsonOf(op), len(w.Viol))
			}
			if len(w.Viol) == 0 {
				w.SweepBasic()
				w.SearchSweep(true)
				if w.Cfg.Async == 0 {
					if err := w.Control(); err != nil {
						w.fail("control", "Control fails: "+err.Error())
					}
				}
			}
		})
		for _, v := range res.W.Viol {
			c.Violation(v)
		}
	}
	c.Sample(map[string]interface{}{"replayed": file})
}
