package main

import (
	"fmt"
	"time"

	"github.com/0xrawsec/sod"
	"github.com/0xrawsec/sod/zzverif/vfs"
	"github.com/0xrawsec/sod/zzverif/vrt"
)

// Larger collections. Everything the breadth-first parts and the long-index
// sweeps do stays below ten objects; the scenarios here are not enumerations of
// histories but fixed ladders of sizes (every size from 1 to N, or one
// collection of a few hundred objects), so that thresholds inside the code
// (pre-allocation caps, inline buffers, "large result" fast paths, slice
// capacities crossing a power of two) are crossed.

type bigWorld struct {
	db    *sod.DB
	model map[string]*Wide // stored objects
	order []string
	fail  func(sig, what string)
}

func (b *bigWorld) insert(v int) *Wide {
	o := &Wide{A: v, B: wideB(v), U: v, K: wideKey(), N: wideSerial, Seq: len(b.order)}
	if err := b.db.InsertOrUpdate(o); err != nil {
		b.fail("insert", "insert failed: "+err.Error())
		return nil
	}
	b.model[o.UUID()] = o
	b.order = append(b.order, o.UUID())
	return o
}

func (b *bigWorld) update(u string, v int) bool {
	o := &Wide{A: v, B: wideB(v), U: v, K: wideKey(), N: wideSerial, Seq: b.model[u].Seq}
	o.Initialize(u)
	if err := b.db.InsertOrUpdate(o); err != nil {
		b.fail("update", "update failed: "+err.Error())
		return false
	}
	b.model[u] = o
	return true
}

func (b *bigWorld) delete(u string) bool {
	o := &Wide{}
	o.Initialize(u)
	if err := b.db.Delete(o); err != nil {
		b.fail("delete", "delete failed: "+err.Error())
		return false
	}
	delete(b.model, u)
	return true
}

func runBig(prop string, cfg Cfg, body func(b *bigWorld)) []Violation {
	var viol []Violation
	fail := func(sig, what string) {
		if len(viol) < 3 {
			viol = append(viol, Violation{Sig: prop + "|big|" + sig, What: what + "\n  under " + cfg.String(), Cfg: cfg})
		}
	}
	ex := vrt.Run(vrt.Config{Sequential: true, MaxTicks: 200}, func() {
		setGlobals(cfg)
		fsys := vfs.New()
		vfs.Cur = fsys
		db := sod.Open(dbRoot)
		if err := db.Create(&Wide{}, cfg.Schema(&Wide{})); err != nil {
			fail("create", "Create failed: "+err.Error())
			return
		}
		body(&bigWorld{db: db, model: map[string]*Wide{}, fail: fail})
	})
	for _, p := range ex.Panics {
		fail("panic|"+normPanic(p.Value+" @ "+sodFrame(p.Stack)), "panic: "+p.Value+"\n"+trimStack(p.Stack))
	}
	if ex.Deadlock || ex.Horizon {
		fail("stuck", "the scenario blocked")
	}
	return viol
}

// bigCollection (C02 / C13): one collection of n objects over 7 value classes: nothing is lost
// or cut whatever the size of the result, with and without limits, in both orders.
func bigCollection(c *Ctx, prop string, cfg Cfg, n int) []Violation {
	return runBig(prop, cfg, func(b *bigWorld) {
		for i := 0; i < n; i++ {
			if b.insert(i%7) == nil {
				return
			}
		}
		per := func(pred func(v int) bool) int {
			k := 0
			for _, m := range b.model {
				if pred(m.A) {
					k++
				}
			}
			return k
		}
		if cnt, err := b.db.Count(&Wide{}); err != nil || cnt != n {
			b.fail("count", fmt.Sprintf("Count = (%d, %v) on a collection of %d", cnt, err, n))
			return
		}
		if all, err := b.db.All(&Wide{}); err != nil || len(all) != n {
			b.fail("all", fmt.Sprintf("All returns %d objects (%v) of a collection of %d", len(all), err, n))
			return
		}
		var idx []int
		if err := b.db.AssignIndex(&Wide{}, "A", &idx); err != nil || len(idx) != n {
			b.fail("assignindex", fmt.Sprintf("AssignIndex returns %d values (%v) for %d objects", len(idx), err, n))
			return
		}
		type q struct {
			field, op string
			probe     interface{}
			pred      func(v int) bool
		}
		qs := []q{
			{"A", ">=", 0, func(v int) bool { return true }},
			{"A", ">", 2, func(v int) bool { return v > 2 }},
			{"A", "<=", 3, func(v int) bool { return v <= 3 }},
			{"A", "=", 3, func(v int) bool { return v == 3 }},
			{"A", "!=", 3, func(v int) bool { return v != 3 }},
			{"U", ">=", 1, func(v int) bool { return v >= 1 }},
			{"B", "<", "v5", func(v int) bool { return v < 5 }},
		}
		for _, x := range qs {
			name := fmt.Sprintf("Search(%s %s %v)", x.field, x.op, x.probe)
			want := per(x.pred)
			mk := func() *sod.Search { return b.db.Search(&Wide{}, x.field, x.op, x.probe) }
			s := mk()
			base, err := s.Collect()
			if err != nil || s.Len() != want || len(base) != want {
				b.fail("size|"+x.field+x.op, fmt.Sprintf("%s on %d objects: Len %d, Collect %d objects (%v), %d match", name, n, s.Len(), len(base), err, want))
				return
			}
			seen := map[string]bool{}
			for _, o := range base {
				if seen[o.UUID()] || !x.pred(o.(*Wide).A) {
					b.fail("member|"+x.field+x.op, name+" returns an object twice or one that does not match")
					return
				}
				seen[o.UUID()] = true
			}
			rev, err := mk().Reverse().Collect()
			if err != nil || len(rev) != want {
				b.fail("reverse-size|"+x.field+x.op, fmt.Sprintf("%s.Reverse() returns %d objects (%v), %d match", name, len(rev), err, want))
				return
			}
			for _, lim := range []int{1, 8, 9, 16, 17, 64, 127, 128, 129, 200, want - 1, want, want + 1} {
				if lim < 0 {
					continue
				}
				w := lim
				if w > want {
					w = want
				}
				got, err := mk().Limit(uint64(lim)).Collect()
				if err != nil || len(got) != w {
					b.fail("limit|"+x.field+x.op, fmt.Sprintf("%s.Limit(%d) returns %d objects (%v), expected %d of the %d matches", name, lim, len(got), err, w, want))
					return
				}
				for i := range got {
					if x.field != "U" && got[i].UUID() != base[i].UUID() {
						b.fail("limit-prefix|"+x.field+x.op, fmt.Sprintf("%s.Limit(%d) is not a prefix of the unlimited result", name, lim))
						return
					}
				}
				gotr, err := mk().Reverse().Limit(uint64(lim)).Collect()
				if err != nil || len(gotr) != w {
					b.fail("reverse-limit|"+x.field+x.op, fmt.Sprintf("%s.Reverse().Limit(%d) returns %d objects (%v), expected %d", name, lim, len(gotr), err, w))
					return
				}
				for i := range gotr {
					if x.field != "U" && gotr[i].UUID() != rev[i].UUID() {
						b.fail("reverse-limit-prefix|"+x.field+x.op, fmt.Sprintf("%s.Reverse().Limit(%d) is not a prefix of the reversed result", name, lim))
						return
					}
				}
			}
			var into []*Wide
			if err := mk().Assign(&into); err != nil || len(into) != want {
				b.fail("assign|"+x.field+x.op, fmt.Sprintf("%s.Assign fills %d objects (%v), %d match", name, len(into), err, want))
				return
			}
			c.Count("evaluations", 1)
		}
		// the same after a reload
		if err := b.db.Close(); err != nil {
			b.fail("close", "Close failed: "+err.Error())
			return
		}
		b.db = sod.Open(dbRoot)
		if s := b.db.Search(&Wide{}, "A", ">=", 0); s.Err() != nil || s.Len() != n {
			b.fail("reload-size", fmt.Sprintf("after Close and Open Search(A >= 0).Len() = %d (%v) on %d objects", s.Len(), s.Err(), n))
			return
		}
		if objs, err := b.db.Search(&Wide{}, "U", ">=", 0).Collect(); err != nil || len(objs) != n {
			b.fail("reload-size-unindexed", fmt.Sprintf("after Close and Open Search(U >= 0) collects %d objects (%v) of %d", len(objs), err, n))
		}
	})
}

// bigSnapshot (C20): searches with result sets of every size from 1 to maxN are evaluated, the
// collection is rewritten by one of several scripts, then the kept values are collected,
// refined and used for a deletion.
func bigSnapshot(c *Ctx, cfg Cfg, size int, script string) []Violation {
	return runBig("C20", cfg, func(b *bigWorld) {
		// value classes: 1 = members of the main search, 0 and 2 = others
		for i := 0; i < size; i++ {
			if b.insert(1) == nil {
				return
			}
		}
		for i := 0; i < 3; i++ {
			if b.insert(0) == nil || b.insert(2) == nil {
				return
			}
		}
		type kept struct {
			name string
			s    *sod.Search
			e    map[string]bool // members at evaluation time
		}
		members := func(pred func(v int) bool) map[string]bool {
			e := map[string]bool{}
			for u, m := range b.model {
				if pred(m.A) {
					e[u] = true
				}
			}
			return e
		}
		mkKept := func() []kept {
			ks := []kept{
				{"Search(A = 1)", b.db.Search(&Wide{}, "A", "=", 1), members(func(v int) bool { return v == 1 })},
				{"Search(A >= 1)", b.db.Search(&Wide{}, "A", ">=", 1), members(func(v int) bool { return v >= 1 })},
				{"Search(A <= 1)", b.db.Search(&Wide{}, "A", "<=", 1), members(func(v int) bool { return v <= 1 })},
				{"Search(U = 1)", b.db.Search(&Wide{}, "U", "=", 1), members(func(v int) bool { return v == 1 })},
				{"Search(A >= 0).And(B = v1)", b.db.Search(&Wide{}, "A", ">=", 0).And("B", "=", wideB(1)), members(func(v int) bool { return v == 1 })},
				{"Search(A = 2).Or(A = 1)", b.db.Search(&Wide{}, "A", "=", 2).Or("A", "=", 1), members(func(v int) bool { return v >= 1 })},
			}
			for _, k := range ks {
				if k.s.Err() != nil {
					b.fail("search-err", k.name+" failed: "+k.s.Err().Error())
					return nil
				}
			}
			return ks
		}
		ks := mkKept()
		if ks == nil {
			return
		}
		deletedSome := false
		switch script {
		case "insert":
			// inserts only: below, inside and above the range
			for i := 0; i < 5; i++ {
				if b.insert(0) == nil || b.insert(1) == nil || b.insert(2) == nil {
					return
				}
			}
		case "delete-insert":
			for i, u := range append([]string{}, b.order...) {
				if i%3 == 0 {
					if _, ok := b.model[u]; ok {
						if !b.delete(u) {
							return
						}
						deletedSome = true
					}
				}
			}
			for i := 0; i < 4; i++ {
				if b.insert(1) == nil || b.insert(2) == nil {
					return
				}
			}
		case "swap":
			// as many deletions as insertions: the collection keeps its size
			k := 0
			for _, u := range append([]string{}, b.order...) {
				if _, ok := b.model[u]; ok && b.model[u].A == 1 && k < (size+1)/2 {
					if !b.delete(u) || b.insert(1) == nil {
						return
					}
					deletedSome = true
					k++
				}
			}
		case "update":
			k := 0
			for _, u := range append([]string{}, b.order...) {
				m, ok := b.model[u]
				if !ok {
					continue
				}
				switch {
				case m.A == 1 && k%2 == 0:
					if !b.update(u, 0) { // leaves the range
						return
					}
				case m.A == 0:
					if !b.update(u, 1) { // enters the range
						return
					}
				}
				k++
			}
		case "deleteall-insert":
			if err := b.db.DeleteAll(&Wide{}); err != nil {
				b.fail("deleteall", "DeleteAll failed: "+err.Error())
				return
			}
			b.model = map[string]*Wide{}
			deletedSome = true
			for i := 0; i < size/2+2; i++ {
				if b.insert(1) == nil {
					return
				}
			}
		case "search-delete-insert":
			if err := b.db.Search(&Wide{}, "A", ">=", 0).Delete(); err != nil {
				b.fail("search-delete", "Search.Delete failed: "+err.Error())
				return
			}
			b.model = map[string]*Wide{}
			deletedSome = true
			for i := 0; i < size/2+2; i++ {
				if b.insert(1) == nil {
					return
				}
			}
		}
		for _, k := range ks {
			for _, how := range []string{"collect", "collect-again", "and-late", "reverse"} {
				s := k.s
				if how == "and-late" {
					s = k.s.And("A", ">=", -5)
					if s.Err() != nil {
						if deletedSome {
							// an unindexed refinement reads the members: a deleted one may be reported
							continue
						}
						b.fail("and-late-err", k.name+".And after the writes failed although no member was deleted: "+s.Err().Error())
						return
					}
				}
				if how == "reverse" {
					s = k.s.Reverse()
				}
				objs, err := s.Collect()
				if err != nil && !deletedSome {
					b.fail("collect-err|"+script, fmt.Sprintf("%s kept across the writes (%s, %d members): %s fails with %v although no member was deleted", k.name, script, len(k.e), how, err))
					return
				}
				seen := map[string]bool{}
				for _, o := range objs {
					w := o.(*Wide)
					if !k.e[w.UUID()] {
						b.fail("foreign|"+script+"|"+how, fmt.Sprintf("%s kept across the writes (%s, %d members at evaluation time): %s returns object #%d (A=%d) which did not match when the search was evaluated", k.name, script, len(k.e), how, w.Seq, w.A))
						return
					}
					if seen[w.UUID()] {
						b.fail("duplicate|"+script+"|"+how, fmt.Sprintf("%s kept across the writes (%s, %d members): %s returns an object twice", k.name, script, len(k.e), how))
						return
					}
					seen[w.UUID()] = true
				}
				if err == nil {
					for u := range k.e {
						if _, stored := b.model[u]; stored && !seen[u] {
							b.fail("survivor-lost|"+script+"|"+how, fmt.Sprintf("%s kept across the writes (%s, %d members): %s reports no error but omits a member that is still stored", k.name, script, len(k.e), how))
							return
						}
					}
				}
				c.Count("evaluations", 1)
			}
		}
		// deleting through a kept search deletes evaluation-time members only
		victim := ks[0]
		before := len(b.model)
		gone := 0
		for u := range victim.e {
			if _, ok := b.model[u]; ok {
				gone++
			}
		}
		derr := victim.s.Delete()
		if n, err := b.db.Count(&Wide{}); err != nil || (derr == nil && n != before-gone) || n < before-gone {
			b.fail("delete-foreign|"+script, fmt.Sprintf("%s kept across the writes (%s) then used for Delete (err %v): Count went from %d to %d, %d evaluation-time members were still stored", victim.name, script, derr, before, n, gone))
		}
	})
}

func runBigC20(c *Ctx) {
	maxN := 24
	cfgs := []Cfg{{}, {Cache: true, Index: 2}}
	if c.Tier == "thorough" {
		maxN = 70
		cfgs = append(cfgs, Cfg{Async: 2}, Cfg{Compress: true, Index: 1})
	}
	item := 0
	for _, cfg := range cfgs {
		for size := 1; size <= maxN; size++ {
			for _, script := range []string{"insert", "delete-insert", "swap", "update", "deleteall-insert", "search-delete-insert"} {
				item++
				if item%c.NShards != c.Shard {
					continue
				}
				for _, v := range bigSnapshot(c, cfg, size, script) {
					c.Violation(v)
				}
				c.Count("transitions", size+20)
				c.Count("paths_replayed", 1)
				key := fmt.Sprintf("big|%s|%d|%s", cfg.String(), size, script)
				c.Distinct("states", key)
				c.Distinct("distinct_nontrivial", key)
			}
		}
	}
}

func runBigCollection(c *Ctx, prop string) {
	sizes := []int{150, 300}
	cfgs := []Cfg{{}, {Cache: true, Compress: true}}
	if c.Tier == "thorough" {
		sizes = []int{130, 260, 520, 1100}
		cfgs = append(cfgs, Cfg{Async: 2, Index: 2})
	}
	item := 0
	for _, cfg := range cfgs {
		for _, n := range sizes {
			item++
			if item%c.NShards != c.Shard {
				continue
			}
			for _, v := range bigCollection(c, prop, cfg, n) {
				c.Violation(v)
			}
			c.Count("transitions", n)
			c.Count("paths_replayed", 1)
			key := fmt.Sprintf("bigcoll|%s|%d", cfg.String(), n)
			c.Distinct("states", key)
			c.Distinct("distinct_nontrivial", key)
		}
	}
}

// bigIntegrity (C11): detection and Repair on collections whose number of directory entries
// crosses the batch sizes a directory listing may use (the collection directory also holds
// schema.json: n objects = n+1 entries).
func bigIntegrity(c *Ctx, cfg Cfg, n int) []Violation {
	return runBig("C11", cfg, func(b *bigWorld) {
		objs := make([]sod.Object, 0, n)
		for i := 0; i < n; i++ {
			o := &Wide{A: i % 7, B: wideB(i % 7), U: i, K: wideKey(), N: wideSerial, Seq: i}
			objs = append(objs, o)
		}
		if k, err := b.db.InsertOrUpdateMany(objs...); err != nil || k != n {
			b.fail("insert", fmt.Sprintf("InsertOrUpdateMany of %d objects returned (%d, %v)", n, k, err))
			return
		}
		if err := b.db.Control(); err != nil {
			b.fail("false-alarm|live", fmt.Sprintf("Control reports an error on an intact collection of %d objects: %v", n, err))
			return
		}
		if err := b.db.Close(); err != nil {
			b.fail("close", "Close failed: "+err.Error())
			return
		}
		b.db = sod.Open(dbRoot)
		if cnt, err := b.db.Count(&Wide{}); err != nil || cnt != n {
			b.fail("false-alarm|load", fmt.Sprintf("a new handle on an intact collection of %d objects counts (%d, %v)", n, cnt, err))
			return
		}
		if err := b.db.Control(); err != nil {
			b.fail("false-alarm|reopened", fmt.Sprintf("Control on a new handle reports an error on an intact collection of %d objects: %v", n, err))
			return
		}
		// remove the file of the last object and add a copy of the first under a fresh id
		fsys := vfs.Cur
		dir := ""
		for _, p := range fsys.Paths(dbRoot) {
			if len(p) > 12 && p[len(p)-12:] == "/schema.json" {
				dir = p[:len(p)-12]
			}
		}
		last := objs[n-1].UUID()
		removed := false
		for _, p := range fsys.Paths(dir) {
			if len(p) > len(dir)+36 && p[len(dir)+1:len(dir)+37] == last {
				fsys.Del(p)
				removed = true
			}
		}
		if !removed {
			b.fail("setup", "object file not found")
			return
		}
		db2 := sod.Open(dbRoot)
		if _, err := db2.Count(&Wide{}); !sod.IsIndexCorrupted(err) {
			b.fail("undetected|load", fmt.Sprintf("one object file of %d was removed; a new handle answers Count with %v", n, err))
			return
		}
		if err := db2.Repair(&Wide{}); err != nil {
			b.fail("repair-failed", fmt.Sprintf("Repair on a collection of %d objects with one file removed failed: %v", n, err))
			return
		}
		if err := db2.Control(); err != nil {
			b.fail("control-after-repair", "Control fails after Repair: "+err.Error())
			return
		}
		if cnt, err := db2.Count(&Wide{}); err != nil || cnt != n-1 {
			b.fail("count-after-repair", fmt.Sprintf("after Repair Count = (%d, %v), expected %d", cnt, err, n-1))
		}
		c.Count("evaluations", 1)
	})
}

func runBigC11(c *Ctx) {
	sizes := []int{999}
	cfgs := []Cfg{{}}
	if c.Tier == "thorough" {
		sizes = []int{63, 64, 255, 256, 999, 1000, 1001, 1999, 2047, 4095}
		cfgs = append(cfgs, Cfg{Compress: true, Lower: true})
	}
	item := 0
	for _, cfg := range cfgs {
		for _, n := range sizes {
			item++
			if item%c.NShards != c.Shard {
				continue
			}
			for _, v := range bigIntegrity(c, cfg, n) {
				c.Violation(v)
			}
			c.Count("transitions", n)
			c.Count("paths_replayed", 1)
			key := fmt.Sprintf("bigintegrity|%s|%d", cfg.String(), n)
			c.Distinct("states", key)
			c.Distinct("distinct_nontrivial", key)
		}
	}
}

// bigValues (C04): objects whose serialised form is large (beyond any fixed buffer: 64 KiB,
// 1 MiB, 3 MiB), repetitive (compresses well) or not, read back on the live handle and on a
// new one, through Get, All and an unindexed search, and re-indexed by Repair.
func bigValues(c *Ctx, cfg Cfg, size int, repetitive bool) []Violation {
	return runBig("C04", cfg, func(b *bigWorld) {
		body := make([]byte, size)
		x := uint32(size + 12345)
		for i := range body {
			if repetitive {
				body[i] = "ab"[i%2]
			} else {
				x = x*1664525 + 1013904223
				body[i] = "abcdefghijklmnopqrstuvwxyzABCDEFGHIJKLMNOPQRSTUVWXYZ0123456789-_"[x>>26]
			}
		}
		small := b.insert(1)
		if small == nil {
			return
		}
		o := &Wide{A: 2, B: wideB(2), U: 2, K: wideKey(), N: wideSerial, Seq: 1, Body: string(body)}
		if err := b.db.InsertOrUpdate(o); err != nil {
			b.fail("insert", fmt.Sprintf("insert of an object with a %d byte field failed: %v", size, err))
			return
		}
		check := func(db *sod.DB, when string) bool {
			g, err := db.GetByUUID(&Wide{}, o.UUID())
			if err != nil || g.(*Wide).Body != string(body) {
				b.fail("get|"+when, fmt.Sprintf("%s: Get of the object with a %d byte field returns err %v (field intact: %v)", when, size, err, err == nil && g.(*Wide).Body == string(body)))
				return false
			}
			all, err := db.All(&Wide{})
			if err != nil || len(all) != 2 {
				b.fail("all|"+when, fmt.Sprintf("%s: All returns %d objects (%v), expected 2", when, len(all), err))
				return false
			}
			objs, err := db.Search(&Wide{}, "U", ">=", 0).Collect()
			if err != nil || len(objs) != 2 {
				b.fail("search|"+when, fmt.Sprintf("%s: an unindexed search (reads every object) returns %d objects (%v), expected 2", when, len(objs), err))
				return false
			}
			return true
		}
		if !check(b.db, "live handle") {
			return
		}
		if err := b.db.Close(); err != nil {
			b.fail("close", "Close failed: "+err.Error())
			return
		}
		db2 := sod.Open(dbRoot)
		if !check(db2, "new handle") || !check(db2, "new handle, second read") {
			return
		}
		// lose the index: Repair reads every file
		fsys := vfs.Cur
		for _, p := range fsys.Paths(dbRoot) {
			if len(p) > 12 && p[len(p)-12:] == "/schema.json" {
				fsys.Del(p)
			}
		}
		db3 := sod.Open(dbRoot)
		if err := db3.Create(&Wide{}, cfg.Schema(&Wide{})); err != nil && !sod.IsIndexCorrupted(err) {
			// (the new, empty index does not describe the files: reported as corruption, then repaired)
			b.fail("recreate", "Create after losing schema.json failed: "+err.Error())
			return
		}
		if err := db3.Repair(&Wide{}); err != nil {
			b.fail("repair", fmt.Sprintf("Repair with an object of %d bytes failed: %v", size, err))
			return
		}
		check(db3, "after Repair")
		c.Count("evaluations", 1)
	})
}

func runBigC04(c *Ctx) {
	sizes := []int{0, 64, 128, 4096, 70000, 1<<20 + 7}
	cfgs := []Cfg{{}, {Compress: true}, {Cache: true, Compress: true}, {Async: 2, Compress: true}}
	if c.Tier == "thorough" {
		sizes = append(sizes, 1, 255, 256, 511, 512, 1<<16, 1<<16+1, 3<<20)
		cfgs = append(cfgs, Cfg{Cache: true}, Cfg{Async: 1, Lower: true, Ext: ".v1.obj"})
	}
	item := 0
	// one very large object (beyond 32 MiB once serialised) in a compressed collection
	item++
	if item%c.NShards == c.Shard {
		for _, v := range bigValues(c, Cfg{Compress: true}, 33<<20+5, true) {
			c.Violation(v)
		}
		c.Distinct("states", "bigvalue|33MiB")
	}
	for _, cfg := range cfgs {
		for _, n := range sizes {
			for _, rep := range []bool{true, false} {
				item++
				if item%c.NShards != c.Shard {
					continue
				}
				for _, v := range bigValues(c, cfg, n, rep) {
					c.Violation(v)
				}
				c.Count("transitions", 6)
				c.Count("paths_replayed", 1)
				key := fmt.Sprintf("bigvalue|%s|%d|%v", cfg.String(), n, rep)
				c.Distinct("states", key)
				c.Distinct("distinct_nontrivial", key)
			}
		}
	}
}

// bigPending (C17 / C10): many more pending asynchronous writes than any internal batch size
// when the settings switch (or a barrier) must put them all on disk.
func bigPending(c *Ctx, prop string, n int, how string) []Violation {
	cfg := Cfg{}
	return runBig(prop, cfg, func(b *bigWorld) {
		as := sod.DefaultSchema
		as.Asynchrone(1<<30, 1000*time.Hour)
		if err := b.db.Create(&Wide{}, as); err != nil {
			b.fail("create", "Create (asynchronous) failed: "+err.Error())
			return
		}
		objs := make([]sod.Object, 0, n)
		ids := make([]string, 0, n)
		for i := 0; i < n; i++ {
			o := &Wide{A: i % 7, B: wideB(i % 7), U: i, K: wideKey(), N: wideSerial, Seq: i}
			objs = append(objs, o)
		}
		if k, err := b.db.InsertOrUpdateMany(objs...); err != nil || k != n {
			b.fail("insert", fmt.Sprintf("InsertOrUpdateMany of %d objects returned (%d, %v)", n, k, err))
			return
		}
		for _, o := range objs {
			ids = append(ids, o.UUID())
		}
		var err error
		switch how {
		case "settings-off":
			err = b.db.Create(&Wide{}, sod.DefaultSchema)
		case "settings-cache":
			s := sod.DefaultSchema
			s.Cache = true
			err = b.db.Create(&Wide{}, s)
		case "flushallcommit":
			err = b.db.FlushAllAndCommit(&Wide{})
		case "close":
			err = b.db.Close()
		}
		if err != nil {
			b.fail("call-err|"+how, how+" failed: "+err.Error())
			return
		}
		onDisk := map[string]bool{}
		for _, p := range vfs.Cur.Paths(dbRoot) {
			i := len(p) - 1
			for i >= 0 && p[i] != '/' {
				i--
			}
			base := p[i+1:]
			if len(base) >= 36 && base[0] != '.' {
				onDisk[base[:36]] = true
			}
		}
		missing := 0
		for _, u := range ids {
			if !onDisk[u] {
				missing++
			}
		}
		if missing > 0 {
			b.fail("not-on-disk|"+how, fmt.Sprintf("%d writes were pending; %s returned and %d accepted objects have no file", n, how, missing))
			return
		}
		if how != "close" {
			if cnt, err := b.db.Count(&Wide{}); err != nil || cnt != n {
				b.fail("count|"+how, fmt.Sprintf("after %s Count = (%d, %v), expected %d", how, cnt, err, n))
				return
			}
			if err := b.db.Control(); err != nil {
				b.fail("control|"+how, fmt.Sprintf("after %s Control fails: %v", how, err))
				return
			}
		}
		db2 := sod.Open(dbRoot)
		if cnt, err := db2.Count(&Wide{}); (err != nil || cnt != n) && how != "flushallcommit" || (how == "flushallcommit" && err != nil) {
			b.fail("second-handle|"+how, fmt.Sprintf("after %s a new handle counts (%d, %v), expected %d", how, cnt, err, n))
		}
		c.Count("evaluations", 1)
	})
}

func runBigPending(c *Ctx, prop string) {
	sizes := []int{9000}
	if c.Tier == "thorough" {
		sizes = []int{4097, 8193, 9000, 20000}
	}
	hows := []string{"settings-off", "settings-cache"}
	if prop == "C10" {
		hows = []string{"flushallcommit", "close"}
	}
	item := 0
	for _, n := range sizes {
		for _, how := range hows {
			item++
			if item%c.NShards != c.Shard {
				continue
			}
			for _, v := range bigPending(c, prop, n, how) {
				c.Violation(v)
			}
			c.Count("transitions", n)
			c.Count("paths_replayed", 1)
			key := fmt.Sprintf("bigpending|%d|%s", n, how)
			c.Distinct("states", key)
			c.Distinct("distinct_nontrivial", key)
		}
	}
}
