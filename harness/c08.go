package main

import (
	"fmt"
	"os"

	"github.com/0xrawsec/sod/zzverif/vrt"
)

func init() { drivers["C08"] = runC08 }

func readersC08() []Call {
	return []Call{
		{Name: "get", Slot: 0}, {Name: "getbyuuid", Slot: 1}, {Name: "exist", Slot: 0}, {Name: "count"}, {Name: "all"},
		{Name: "assignindex"}, {Name: "schema"},
		{Name: "search", Field: "A", Cmp: ">=", Probe: 2}, {Name: "searchu", Field: "P", Cmp: "=", Probe: 1},
		{Name: "collect", Field: "A", Cmp: ">=", Probe: 2}, {Name: "collect", Field: "P", Cmp: ">=", Probe: 0},
		{Name: "andor", Field: "S", Cmp: "!=", Probe: 0},
	}
}

func writersC08() []Call {
	return []Call{
		{Name: "ins", V: 2, K: 3}, {Name: "upd", Slot: 0, V: 3, K: 0}, {Name: "many", V: 2, K: 3},
		{Name: "del", Slot: 0}, {Name: "delall"}, {Name: "sdel", Field: "A", Cmp: ">=", Probe: 2},
		{Name: "commit"}, {Name: "flushallc"}, {Name: "control"}, {Name: "create"}, {Name: "repair"}, {Name: "close"},
	}
}

func runC08(c *Ctx) {
	// two phases (VERIF_PHASE): "race" = built with -race, few deviations (a
	// happens-before detector finds a race in any schedule that contains both
	// accesses unordered); "lin" = plain build, more deviations, linearizability
	phase := os.Getenv("VERIF_PHASE")
	bound := 2
	if phase == "race" {
		bound = 1
	}
	cfgs := []Cfg{{}, {Cache: true}, {Async: 1}}
	var programs [][][]Call
	rs, ws := readersC08(), writersC08()
	for _, r := range rs {
		for _, w := range ws {
			programs = append(programs, [][]Call{{r}, {w}})
		}
	}
	// writer/writer and reader/reader pairs (a subset on quick)
	for i, w1 := range ws {
		for j, w2 := range ws {
			if j < i || (c.Tier == "quick" && (i+j)%3 != 0) {
				continue
			}
			programs = append(programs, [][]Call{{w1}, {w2}})
		}
	}
	for i, r1 := range rs {
		for j, r2 := range rs {
			if j < i || (c.Tier == "quick" && (i+j)%4 != 0) {
				continue
			}
			programs = append(programs, [][]Call{{r1}, {r2}})
		}
	}
	// two calls on one side: a read after the own write must see it (real-time order inside a thread)
	programs = append(programs,
		[][]Call{{{Name: "delall"}}, {{Name: "ins", V: 2, K: 3}, {Name: "get", Slot: 0}}},
		[][]Call{{{Name: "delall"}}, {{Name: "ins", V: 2, K: 3}, {Name: "count"}}},
		[][]Call{{{Name: "sdel", Field: "A", Cmp: ">=", Probe: 2}}, {{Name: "ins", V: 3, K: 4}, {Name: "all"}}},
		[][]Call{{{Name: "count"}, {Name: "count"}}, {{Name: "ins", V: 2, K: 3}, {Name: "del", Slot: 0}}},
		[][]Call{{{Name: "upd", Slot: 0, V: 3, K: 0}, {Name: "get", Slot: 0}}, {{Name: "upd", Slot: 0, V: 2, K: 0}, {Name: "get", Slot: 0}}},
	)
	// a union whose left operand is empty, against the writers that move index entries
	for _, w := range []Call{{Name: "ins", V: 2, K: 3}, {Name: "many", V: 2, K: 3}, {Name: "upd", Slot: 0, V: 3, K: 0}, {Name: "del", Slot: 0}, {Name: "sdel", Field: "A", Cmp: ">=", Probe: 2}} {
		programs = append(programs, [][]Call{{{Name: "emptyor", Field: "A", Cmp: ">=", Probe: 2}}, {w}})
	}
	if c.Tier == "thorough" {
		bound = 3
		if phase == "race" {
			bound = 2
		}
		cfgs = append(cfgs, Cfg{Async: 2, Cache: true, Index: 1})
		for _, r := range rs[:6] {
			for _, w := range ws[:6] {
				programs = append(programs, [][]Call{{r}, {w}, {{Name: "commit"}}})
				programs = append(programs, [][]Call{{r, r}, {w, {Name: "count"}}})
			}
		}
	}
	setup := []Op{{Op: "ins", V: 1, K: 0}, {Op: "ins", V: 2, K: 2}}
	vrt.OnKill = func() { os.Stderr.WriteString("#KILL\n") }
	item := 0
	for _, cfg := range cfgs {
		for _, cold := range []bool{false, true} {
			for pi, th := range programs {
				item++
				if item%c.NShards != c.Shard {
					continue
				}
				if c.Expired() {
					c.Count("depth_incomplete", 1)
					return
				}
				ticks := 0
				if cfg.Async != 0 {
					ticks = 3
				}
				bound := bound
				if c.Tier == "quick" && phase != "race" && (cfg.Async != 0 || (cold && !multiPhase(th))) {
					// quick: with the flusher one deviation; from a cold handle the full bound only
					// for calls that lock in several phases
					bound = 1
				}
				if cfg.Async != 0 && usesIntegrity(th) {
					// Control / Repair compare the index with the files: while asynchronous writes are
					// pending they are outside the statements ("once no write is pending"); see C10
					continue
				}
				if !indexedUnder(cfg, "A") && usesCall(th, "assignindex") {
					// AssignIndex(A) is an error where A carries no index: the sequential reference
					// of the linearizability oracle describes the indexed case only
					continue
				}
				prog := Prog{Cfg: cfg, Setup: setup, Cold: cold, Threads: th, Ticks: ticks, Atomic: os.Getenv("C08_ATOMIC") != ""}
				if os.Getenv("C08_BOUND") != "" {
					fmt.Sscan(os.Getenv("C08_BOUND"), &bound)
				}
				progID := fmt.Sprintf("cfg=%s cold=%v prog=%d %s", cfg, cold, pi, jsonOf(th))
				reportedLin := false
				outcomes := map[string]bool{}
				var last *ExecResult
				st := exploreSchedules(bound, 100000, func(prefix []int) *vrt.Exec {
					os.Stderr.WriteString("#BEGIN " + progID + "\n")
					last = runProg(prog, prefix, bound, func(w *World, r *ExecResult) {
						objs, err := w.DB.All(&Rec{})
						if err != nil {
							r.Final = "err:" + err.Error()
						} else {
							r.Final = "ok:" + objSet(objs)
						}
					})
					return last.X
				}, func(x *vrt.Exec, choices []int) bool {
					c.Count("schedules", 1)
					c.Count("evaluations", 1)
					c.Count("transitions", x.NPoints+1)
					r := last
					if x.Deadlock || x.Horizon {
						c.Count("deadlocks_left_to_C09", 1)
						return true
					}
					for _, p := range x.Panics {
						c.Violation(Violation{Sig: "C08|panic|" + normPanic(p.Value+" @ "+sodFrame(p.Stack)), What: "a thread panicked (the process would have crashed): " + p.Value + "\n" + trimStack(p.Stack), Cfg: cfg, More: map[string]interface{}{"program": prog, "schedule": choices}})
						return false
					}
					if !r.Started || r.W == nil {
						return true
					}
					// base model = state after set-up (the world's model is only advanced by the driver)
					hist := r.Hist
					key := ""
					for _, h := range hist {
						key += h.Res + "|"
					}
					outcomes[key+r.Final] = true
					if !reportedLin {
						if order, tried := linearizable(r.W.M, r.W.Slots, hist, r.Final); order == nil {
							reportedLin = true
							var names []string
							desc := ""
							for _, h := range hist {
								names = append(names, h.Call.Name)
								desc += fmt.Sprintf("\n    thread %d: %s -> %s  [inv %d, resp %d]", h.Thread, jsonOf(h.Call), r.W.rename(clip(h.Res)), h.Inv, h.Resp)
							}
							c.Violation(Violation{
								Sig:  fmt.Sprintf("C08|not-linearizable|%v", names),
								What: "no sequential order of the calls (respecting real-time order) explains the results and the final state:" + desc + "\n    final All = " + r.W.rename(clip(r.Final)) + "\n    (one candidate order ends in " + r.W.rename(clip(tried)) + ")",
								Cfg:  cfg, More: map[string]interface{}{"program": prog, "schedule": choices},
							})
						}
					}
					return true
				})
				if os.Getenv("C08_DEBUG") != "" {
					fmt.Fprintf(os.Stderr, "DBG execs=%d maxpoints=%d outcomes=%d %s\n", st.Execs, st.MaxPoints, len(outcomes), progID)
				}
				c.Count("programs", 1)
				c.Count("paths_replayed", st.Execs)
				if st.Truncated {
					c.Count("programs_truncated", 1)
					c.capHit = true
				}
				c.Distinct("states", progID)
				if len(outcomes) > 1 {
					c.Distinct("distinct_nontrivial", progID)
				}
				c.Max("max_distinct_outcomes_per_program", len(outcomes))
				if item < 60 {
					c.Sample(map[string]interface{}{"program": prog, "schedules_explored": st.Execs, "distinct_outcomes": len(outcomes)})
				}
			}
		}
	}
	c.Max("deviation_bound_completed_"+phase, bound)
	if phase == "race" {
		// descriptive fields are sent once, by the other phase
		return
	}
	c.Meta(map[string]interface{}{
		"rule":    "programs: every (reader or search refinement, writer) pair, subsets of writer/writer and reader/reader pairs, and two-call threads, from a warm and from a freshly opened handle, in sync, cached and async (with the flusher) configurations; every schedule with at most the stated deviations runs on the real code built with -race under the cooperative scheduler (hand-off invisible to the detector, lock grants mirrored on real mutexes). Oracles per execution: no race report whose access is made by package sod (reports on shim memory and during thread unwinding are ignored and counted), no thread panic, and the recorded call/return history plus the final All() is explained by some sequential order of the calls on the reference that respects real-time order (brute force over linear extensions). Non-trivial = programs with more than one distinct outcome over their schedules.",
		"configs": cfgs, "programs_per_config_and_start": len(programs),
		"assumptions": []string{"each call of the public surface is one atomic step, except InsertOrUpdateBulk (one step per chunk, documented)", "scheduling points at synchronisation operations are complete only for race-free executions; races are decided by the detector inside each enumerated schedule"},
	})
}

// multiPhase: calls that take the lock more than once (snapshot then act, or
// evaluate then collect): the interesting ones for atomicity.
func multiPhase(th [][]Call) bool {
	for _, t := range th {
		if len(t) > 1 {
			return true
		}
		for _, c := range t {
			switch c.Name {
			case "delall", "sdel", "count", "many", "collect", "andor", "deleteobjects", "close", "repair", "create":
				return true
			}
		}
	}
	return false
}

func usesCall(th [][]Call, name string) bool {
	for _, t := range th {
		for _, c := range t {
			if c.Name == name {
				return true
			}
		}
	}
	return false
}

func usesIntegrity(th [][]Call) bool {
	for _, t := range th {
		for _, c := range t {
			if c.Name == "control" || c.Name == "repair" {
				return true
			}
		}
	}
	return false
}
