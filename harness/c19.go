package main

import (
	"bytes"
	"compress/gzip"
	"encoding/json"
	"fmt"
	"io"
	"os"
	"sort"
	"strings"
	"time"

	"github.com/0xrawsec/sod"
	"github.com/0xrawsec/sod/zzverif/vfs"
	"github.com/0xrawsec/sod/zzverif/vrt"
)

func init() { drivers["C19"] = runC19 }

// ---- JSON tree mutations -------------------------------------------------------------

type jpath []interface{} // string keys and int indexes

func walkJSON(v interface{}, p jpath, visit func(p jpath, v interface{})) {
	visit(p, v)
	switch x := v.(type) {
	case map[string]interface{}:
		keys := make([]string, 0, len(x))
		for k := range x {
			keys = append(keys, k)
		}
		sort.Strings(keys)
		for _, k := range keys {
			walkJSON(x[k], append(append(jpath{}, p...), k), visit)
		}
	case []interface{}:
		for i, e := range x {
			walkJSON(e, append(append(jpath{}, p...), i), visit)
		}
	}
}

func cloneJSON(v interface{}) interface{} {
	switch x := v.(type) {
	case map[string]interface{}:
		m := make(map[string]interface{}, len(x))
		for k, e := range x {
			m[k] = cloneJSON(e)
		}
		return m
	case []interface{}:
		s := make([]interface{}, len(x))
		for i, e := range x {
			s[i] = cloneJSON(e)
		}
		return s
	}
	return v
}

// setAt returns a copy of root with the node at p replaced (op "set"), deleted
// ("del") or duplicated ("dup": array elements only).
func editJSON(root interface{}, p jpath, op string, val interface{}) (interface{}, bool) {
	if len(p) == 0 {
		if op == "set" {
			return val, true
		}
		return nil, false
	}
	root = cloneJSON(root)
	cur := root
	var parent interface{}
	var pkey interface{}
	for i, k := range p {
		if i == len(p)-1 {
			switch c := cur.(type) {
			case map[string]interface{}:
				key := k.(string)
				switch op {
				case "set":
					c[key] = val
				case "del":
					delete(c, key)
				default:
					return nil, false
				}
			case []interface{}:
				idx := k.(int)
				var ns []interface{}
				switch op {
				case "set":
					c[idx] = val
					return root, true
				case "swap":
					// exchange with the element at index val (same array)
					j, ok := val.(int)
					if !ok || j < 0 || j >= len(c) || j == idx {
						return nil, false
					}
					c[idx], c[j] = c[j], c[idx]
					return root, true
				case "del":
					ns = append(append([]interface{}{}, c[:idx]...), c[idx+1:]...)
				case "dup":
					ns = append(append(append([]interface{}{}, c[:idx+1]...), cloneJSON(c[idx])), c[idx+1:]...)
				}
				// re-attach the new slice to the parent
				switch pp := parent.(type) {
				case map[string]interface{}:
					pp[pkey.(string)] = ns
				case []interface{}:
					pp[pkey.(int)] = ns
				case nil:
					return ns, true
				}
			}
			return root, true
		}
		parent, pkey = cur, k
		switch c := cur.(type) {
		case map[string]interface{}:
			cur = c[k.(string)]
		case []interface{}:
			cur = c[k.(int)]
		}
	}
	return root, true
}

var replacementValues = []interface{}{nil, true, json.Number("0"), json.Number("-1"), json.Number("1.5"), json.Number("1e999"), "", "x", []interface{}{}, []interface{}{json.Number("0")}, []interface{}{[]interface{}{}}, map[string]interface{}{}, map[string]interface{}{"a": json.Number("0")}}

func parseJSON(data []byte) (interface{}, error) {
	dec := json.NewDecoder(bytes.NewReader(data))
	dec.UseNumber()
	var v interface{}
	err := dec.Decode(&v)
	return v, err
}

func gz(data []byte) []byte {
	var buf bytes.Buffer
	zw, _ := gzip.NewWriterLevel(&buf, gzip.BestSpeed)
	zw.Write(data)
	zw.Close()
	return buf.Bytes()
}

func gunz(data []byte) ([]byte, error) {
	zr, err := gzip.NewReader(bytes.NewReader(data))
	if err != nil {
		return nil, err
	}
	return io.ReadAll(zr)
}

// c19Case is one mutated directory.
type c19Case struct {
	Kind string // trunc | subst | tree | tree2 | stray | healthy
	File string // schema | object
	Desc string
	fs   *vfs.FS
}

// watchdog: a case that does not finish is a hang (C19), not an engine problem.
var c19Current string
var c19Timer *time.Timer

func armWatchdog(c *Ctx, desc string) {
	c19Current = desc
	if c19Timer != nil {
		c19Timer.Stop()
	}
	c19Timer = time.AfterFunc(30*time.Second, func() {
		c.Violation(Violation{Sig: "C19|hang", What: "a call did not return within 30 s of wall time on: " + c19Current})
		c.capHit = true
		c.finish()
		os.Exit(0)
	})
}

// the public call set, each call under recover
func c19CallSet(cfg Cfg, fsys *vfs.FS, knownUUID string, report func(sig, what string)) {
	vfs.Cur = fsys
	setGlobals(cfg)
	db := sod.Open(dbRoot)
	call := func(name string, f func() error) {
		if p := safeCall(func() { _ = f() }); p != "" {
			report("panic|"+normPanic(p), name+" panicked: "+p)
		}
	}
	call("Schema", func() error { _, err := db.Schema(&Rec{}); return err })
	call("Control", func() error { return db.Control() })
	call("Get", func() error {
		r := &Rec{}
		r.Initialize(knownUUID)
		_, err := db.Get(r)
		return err
	})
	call("Exist", func() error {
		r := &Rec{}
		r.Initialize(knownUUID)
		_, err := db.Exist(r)
		return err
	})
	call("Count", func() error { _, err := db.Count(&Rec{}); return err })
	call("All", func() error { _, err := db.All(&Rec{}); return err })
	searches := []Atom{{"A", ">=", int(0)}, {"S", "=", "A"}, {"K", "~=", "^K"}, {"P", "=", int(1)}, {"T", "<", tabT[3]}, {"F64", "!=", 1.5}, {"In.Tag", "<=", "x"}}
	for _, a := range searches {
		a := a
		call("Search("+a.Field+")", func() error {
			s := db.Search(&Rec{}, a.Field, a.Cmp, a.Probe)
			objs, cerr := s.Collect()
			if s.Err() != nil && len(objs) > 0 {
				report("objects-despite-error|"+a.Field, fmt.Sprintf("Search(%s) reported %v but Collect returned %d objects", a, s.Err(), len(objs)))
			}
			var recs []*Rec
			aerr := s.Assign(&recs)
			if s.Err() != nil && len(recs) > 0 {
				report("objects-despite-error|"+a.Field, fmt.Sprintf("Search(%s) reported %v but Assign returned %d objects", a, s.Err(), len(recs)))
			}
			o, oerr := s.One()
			if s.Err() != nil && oerr == nil && o != nil {
				report("objects-despite-error|"+a.Field, fmt.Sprintf("Search(%s) reported %v but One returned an object", a, s.Err()))
			}
			s2 := s.And("A", "<", int(5)).Or("S", "=", "a")
			s2.Len()
			_, _ = cerr, aerr
			return nil
		})
	}
	// a query that needs every object cannot be evaluated when an object is unreadable
	call("UnindexedSearchOverUnreadable", func() error {
		_, aerr := db.All(&Rec{})
		s := db.Search(&Rec{}, "P", ">=", int(-1))
		objs, cerr := s.Collect()
		n, nerr := db.Count(&Rec{})
		if aerr != nil && nerr == nil && s.Err() == nil && cerr == nil && len(objs) < n {
			report("partial-result-without-error", fmt.Sprintf("All fails (%v) but a search on a non indexed field, which has to read every object, silently returns %d of %d objects", aerr, len(objs), n))
		}
		return nil
	})
	call("AssignIndex", func() error { var t []int; return db.AssignIndex(&Rec{}, "A", &t) })
	call("InsertOrUpdate", func() error { return db.InsertOrUpdate(NewRec(3, 4)) })
	call("InsertOrUpdate(update)", func() error {
		r := NewRec(2, 0)
		r.Initialize(knownUUID)
		return db.InsertOrUpdate(r)
	})
	call("InsertOrUpdateMany", func() error { _, err := db.InsertOrUpdateMany(NewRec(0, 3), NewRec(1, 2)); return err })
	call("Delete", func() error {
		r := &Rec{}
		r.Initialize(knownUUID)
		return db.Delete(r)
	})
	// every object the directory names: moved inside every index (update), then deleted
	var others []string
	for _, p := range fsys.Paths(dbRoot) {
		base := p[strings.LastIndex(p, "/")+1:]
		if !strings.HasSuffix(p, "/") && len(base) >= 36 && uuidRe.MatchString(base[:36]) && base[:36] != knownUUID {
			others = append(others, base[:36])
		}
	}
	for i, u := range others {
		u, i := u, i
		call("InsertOrUpdate(update other)", func() error {
			r := NewRec((i+2)%NV, 4)
			r.K = fmt.Sprintf("moved%d", i)
			r.N = int64(900 + i)
			r.Initialize(u)
			return db.InsertOrUpdate(r)
		})
	}
	for _, u := range others {
		u := u
		call("Delete(other)", func() error {
			r := &Rec{}
			r.Initialize(u)
			return db.Delete(r)
		})
	}
	call("Repair", func() error { return db.Repair(&Rec{}) })
	call("Control2", func() error { return db.Control() })
	call("DeleteAll", func() error { return db.DeleteAll(&Rec{}) })
	call("Create", func() error { return db.Create(&Rec{}, cfg.Schema(&Rec{})) })
	call("Close", func() error { return db.Close() })
}

// normPanic reduces a panic description to its site (signature axis): the
// innermost sod function, or the first words of the message.
func normPanic(p string) string {
	if i := strings.LastIndex(p, " @ "); i >= 0 {
		return "at=" + p[i+3:]
	}
	p = firstLine(p)
	if len(p) > 40 {
		p = p[:40]
	}
	return p
}

func runC19(c *Ctx) {
	type baseSpec struct {
		Cfg  Cfg
		Path []Op
	}
	bases := []baseSpec{
		{Cfg{}, []Op{{Op: "ins", V: 1, K: 0}}},
		{Cfg{Compress: true}, []Op{{Op: "ins", V: 2, K: 0}, {Op: "ins", V: 3, K: 2}}},
		// four objects, three of them with equal values in most indexes, one deleted before
		// (object ids with a hole)
		{Cfg{}, []Op{{Op: "ins", V: 0, K: 0}, {Op: "del", Slot: 0}, {Op: "ins", V: 1, K: 0}, {Op: "ins", V: 1, K: 2}, {Op: "ins", V: 1, K: 3}, {Op: "ins", V: 0, K: 4}}},
	}
	if c.Tier == "thorough" {
		bases = append(bases,
			baseSpec{Cfg{}, nil},
			baseSpec{Cfg{}, []Op{{Op: "ins", V: 2, K: 0}, {Op: "ins", V: 2, K: 2}}},
			baseSpec{Cfg{Async: 1, Cache: true, Ext: ".v1.obj"}, []Op{{Op: "ins", V: 3, K: 0}}},
			baseSpec{Cfg{Index: 2, Lower: true}, []Op{{Op: "ins", V: 1, K: 0}}})
	}
	substBytes := []byte{0, '"', '{', '[', ']', '}', ',', ':', '0', '-', 'e', 0xFF}
	item := 0
	runCase := func(cfg Cfg, fsys *vfs.FS, known string, kind, file, desc string) {
		armWatchdog(c, kind+" "+file+" "+desc)
		var viol []Violation
		report := func(sig, what string) {
			viol = append(viol, Violation{Sig: "C19|" + sig + "|" + file, What: what + "\n  case: " + kind + " of " + file + ": " + desc, Cfg: cfg})
		}
		x := vrt.Run(vrt.Config{Sequential: true, MaxTicks: 50}, func() {
			c19CallSet(cfg, fsys, known, report)
		})
		for _, p := range x.Panics {
			report("panic|thread|"+normPanic(p.Value), "panic in a background thread: "+p.Value+"\n"+trimStack(p.Stack))
		}
		if x.Deadlock || x.Horizon {
			report("hang", fmt.Sprintf("calls block forever: %v", x.Blocked))
		}
		c.Count("evaluations", 1)
		c.Count("transitions", 1)
		c.Count("paths_replayed", 1)
		c.Count("cases_"+kind, 1)
		c.Distinct("states", cfg.String()+kind+file+desc)
		if kind != "healthy" {
			c.Distinct("distinct_nontrivial", cfg.String()+kind+file+desc)
		}
		for _, v := range viol {
			c.Violation(v)
		}
	}
	for bi, b := range bases {
		cfg := b.Cfg
		var healthy *vfs.FS
		var known string
		RunPath(cfg, "C19", b.Path, func(w *World) {
			w.DB.Close()
			healthy = w.FS.Clone()
			if len(w.Slots) > 0 {
				known = w.Slots[0]
			} else {
				known = NeverUUID
			}
		})
		dir := findCollDir(healthy, dbRoot)
		var files []string
		for _, p := range healthy.Paths(dir) {
			files = append(files, p)
		}
		mine := func() bool {
			item++
			if c.Expired() {
				return false
			}
			return item%c.NShards == c.Shard
		}
		// healthy control case: no panic and the call set works
		if mine() {
			runCase(cfg, healthy.Clone(), known, "healthy", "none", "unmodified directory")
		}
		for _, p := range files {
			fclass := "object"
			if strings.HasSuffix(p, "schema.json") {
				fclass = "schema"
			}
			orig, _ := healthy.Get(p)
			// truncations
			for n := 0; n < len(orig); n++ {
				if !mine() {
					continue
				}
				f := healthy.Clone()
				f.Put(p, orig[:n])
				runCase(cfg, f, known, "trunc", fclass, fmt.Sprintf("cut to %d of %d bytes", n, len(orig)))
			}
			// single byte substitutions
			for off := 0; off < len(orig); off++ {
				for _, sb := range substBytes {
					if orig[off] == sb {
						continue
					}
					if !mine() {
						continue
					}
					d := append([]byte{}, orig...)
					d[off] = sb
					f := healthy.Clone()
					f.Put(p, d)
					runCase(cfg, f, known, "subst", fclass, fmt.Sprintf("byte %d (%q) -> %q", off, orig[off], sb))
				}
			}
			// JSON tree mutations
			plain := orig
			compressed := false
			if strings.HasSuffix(p, ".gz") {
				if d, err := gunz(orig); err == nil {
					plain, compressed = d, true
				}
			}
			tree, err := parseJSON(plain)
			if err != nil {
				continue
			}
			type edit struct {
				p   jpath
				op  string
				val interface{}
			}
			var edits []edit
			// strings and numbers that occur elsewhere in the same document (a field name where
			// another one belongs, an object id that belongs to another entry...)
			var docStrings, docNumbers []interface{}
			seenVal := map[string]bool{}
			walkJSON(tree, nil, func(jp jpath, v interface{}) {
				switch x := v.(type) {
				case string:
					if !seenVal["s"+x] && len(docStrings) < 24 {
						seenVal["s"+x] = true
						docStrings = append(docStrings, x)
					}
				case json.Number:
					if !seenVal["n"+x.String()] && len(docNumbers) < 8 {
						seenVal["n"+x.String()] = true
						docNumbers = append(docNumbers, x)
					}
				}
			})
			walkJSON(tree, nil, func(jp jpath, v interface{}) {
				for _, rv := range replacementValues {
					edits = append(edits, edit{jp, "set", rv})
				}
				switch v.(type) {
				case string:
					for _, o := range docStrings {
						if o != v {
							edits = append(edits, edit{jp, "set", o})
						}
					}
				case json.Number:
					for _, o := range docNumbers {
						if o != v {
							edits = append(edits, edit{jp, "set", o})
						}
					}
				}
				if len(jp) > 0 {
					edits = append(edits, edit{jp, "del", nil})
					if idx, isIdx := jp[len(jp)-1].(int); isIdx {
						edits = append(edits, edit{jp, "dup", nil})
						// exchange with every later element of the same array (an index that is no
						// longer sorted, a tuple whose members changed places)
						for j := idx + 1; j < idx+8; j++ {
							edits = append(edits, edit{jp, "swap", j})
						}
					}
				}
			})
			put := func(f *vfs.FS, t interface{}) {
				d, _ := json.Marshal(t)
				if compressed {
					d = gz(d)
				}
				f.Put(p, d)
			}
			for _, e := range edits {
				if !mine() {
					continue
				}
				nt, ok := editJSON(tree, e.p, e.op, e.val)
				if !ok {
					continue
				}
				f := healthy.Clone()
				put(f, nt)
				runCase(cfg, f, known, "tree", fclass, fmt.Sprintf("%s %v %s", e.op, e.p, jsonOf(e.val)))
			}
			// thorough: pairs of tree mutations inside the index subtree of the schema
			if c.Tier == "thorough" && fclass == "schema" && bi <= 1 {
				var sub []edit
				small := []interface{}{nil, json.Number("0"), "x", []interface{}{}}
				walkJSON(tree, nil, func(jp jpath, v interface{}) {
					if len(jp) == 0 || jp[0] != "index" {
						return
					}
					for _, rv := range small {
						sub = append(sub, edit{jp, "set", rv})
					}
					sub = append(sub, edit{jp, "del", nil})
				})
				for i, e1 := range sub {
					for _, e2 := range sub[i+1:] {
						if !mine() {
							continue
						}
						nt, ok := editJSON(tree, e1.p, e1.op, e1.val)
						if !ok {
							continue
						}
						nt2, ok := safeEdit(nt, e2.p, e2.op, e2.val)
						if !ok {
							continue
						}
						f := healthy.Clone()
						put(f, nt2)
						runCase(cfg, f, known, "tree2", fclass, fmt.Sprintf("%s %v %s ; %s %v %s", e1.op, e1.p, jsonOf(e1.val), e2.op, e2.p, jsonOf(e2.val)))
					}
				}
			}
		}
		// stray directory entries
		ext := cfg.BaseExt()
		strayFiles := []string{"README", "x", ".hidden", known, known + ".", known + ext + ".bak", "schema.json.bak", "zz" + ext, NeverUUID + ext, NeverUUID}
		for _, name := range strayFiles {
			if !mine() {
				continue
			}
			f := healthy.Clone()
			f.Put(dir+"/"+name, []byte("{}"))
			runCase(cfg, f, known, "stray", "file", "extra file "+name)
		}
		strayDirs := []string{"sub", "sub.dir", NeverUUID + ext, NeverUUID, "eeeeeeee-0000-4000-8000-000000000009" + ext + ".gz"}
		for _, name := range strayDirs {
			if !mine() {
				continue
			}
			f := healthy.Clone()
			f.PutDir(dir + "/" + name)
			runCase(cfg, f, known, "stray", "dir", "extra sub-directory "+name)
		}
		// an object file that is a directory, a schema that is a directory
		for _, p := range files {
			if !mine() {
				continue
			}
			f := healthy.Clone()
			f.Del(p)
			f.PutDir(p)
			runCase(cfg, f, known, "stray", "dir", "a directory in place of "+p[len(dir)+1:])
		}
	}
	// search arguments on healthy databases (empty and non-empty, indexed and not)
	fields := []string{"A", "S", "P", "L", "K", "T", "F64", "U16", "In.Tag", "In.Lvl", "Emb.E", "Nope", "", "In", "In.", ".A", "A.B", "In.Tag.X", "Emb", "Sl", "M", "Ptr", "Item", "Item.uuid", "Emb.E", "Emb.e", "In.tag"}
	// paths that designate nothing in Rec: a search on them cannot be evaluated
	noSuchField := map[string]bool{"Nope": true, "": true, "In.": true, ".A": true, "A.B": true, "In.Tag.X": true, "Emb.e": true, "In.tag": true, "Item.uuid": true, "S.S": true, "T.wall": true, "Emb.E.E": true, "A.": true, "K.K.K": true}
	fields = append(fields, "S.S", "T.wall", "Emb.E.E", "A.", "K.K.K")
	ops := []string{"=", "!=", "<", "<=", ">", ">=", "~=", "<>", "", "==", "and", " =", "= ", "\t<", " >= ", "~= ", "=\n", "!", "=~"}
	one := 1
	values := []interface{}{int(1), int8(1), int16(1), int32(1), int64(1), uint(1), uint8(1), uint16(1), uint32(1), uint64(1), float32(1), 1.5, "x", "(", "", true, nil, []int{1}, map[string]int{"a": 1}, struct{ X int }{1}, &one, tabT[1], &Rec{}, []byte("x"), 'r', complex(1, 1)}
	for _, cfg := range []Cfg{{}, {Index: 1}, {Index: 2, Cache: true}} {
		for _, content := range [][]Op{nil, {{Op: "ins", V: 1, K: 0}, {Op: "ins", V: 2, K: 2}}} {
			item++
			if item%c.NShards != c.Shard {
				continue
			}
			cfg, content := cfg, content
			armWatchdog(c, "search arguments")
			var viol []Violation
			x := RunPath(cfg, "C19", content, func(w *World) {
				w.Viol = nil
				for _, f := range fields {
					for _, op := range ops {
						for _, v := range values {
							f, op, v := f, op, v
							p := safeCall(func() {
								s := w.DB.Search(&Rec{}, f, op, v)
								objs, _ := s.Collect()
								if noSuchField[f] && (s.Err() == nil || len(objs) > 0) {
									viol = append(viol, Violation{Sig: "C19|unknown-field-evaluated|field=" + f, What: fmt.Sprintf("Search(%q %q %T): %q is not a field of the object, yet the search reports %v and returns %d objects", f, op, v, f, s.Err(), len(objs)), Cfg: cfg, Path: content})
								}
								if s.Err() != nil && len(objs) > 0 {
									viol = append(viol, Violation{Sig: "C19|objects-despite-error|args", What: fmt.Sprintf("Search(%q %q %T) reported %v but returned %d objects", f, op, v, s.Err(), len(objs)), Cfg: cfg})
								}
								s.And(f, op, v).Or(f, op, v).Len()
								w.DB.Search(&Rec{}, "A", ">=", int(0)).And(f, op, v).Collect()
								w.DB.Search(&Rec{}, "P", ">=", int(0)).Or(f, op, v).Collect()
								s.Operation("xor", f, op, v)
								var recs []*Rec
								s.Assign(&recs)
								// every limit, then every terminal operation
								for _, lim := range []uint64{0, 1, 2, 1 << 62, ^uint64(0)} {
									sl := w.DB.Search(&Rec{}, f, op, v).Limit(lim)
									sl.One()
									var r1 *Rec
									sl.AssignOne(&r1)
									sl = w.DB.Search(&Rec{}, f, op, v).Limit(lim).Reverse()
									var r2 *Rec
									sl.AssignUnique(&r2)
									sl.Collect()
									sl.Len()
								}
							})
							c.Count("evaluations", 1)
							if p != "" {
								fclass := f
								viol = append(viol, Violation{Sig: fmt.Sprintf("C19|panic|Search-args|field=%s|%s", fclass, normPanic(p)), What: fmt.Sprintf("Search(%q, %q, %T(%v)) panicked: %s", f, op, v, v, p), Cfg: cfg, Path: content})
							}
						}
					}
				}
			})
			c.Count("transitions", 1)
			c.Count("paths_replayed", 1)
			for _, v := range append(viol, x.W.Viol...) {
				c.Violation(v)
			}
		}
	}
	if c19Timer != nil {
		c19Timer.Stop()
	}
	c.Sample(map[string]interface{}{"mutation_kinds": []string{"trunc", "subst", "tree", "tree2", "stray"}, "substitution_bytes": substBytes, "fields": fields, "operators": ops})
	c.Meta(map[string]interface{}{
		"rule":        "files: for every base database, schema.json and every object file: every truncation length, every single-byte substitution from a 12-byte set at every offset, every single JSON-tree mutation (each node replaced by each of 13 values, each key/element deleted, each array element duplicated, each pair of elements of an array exchanged; compressed files are mutated both as gzip bytes and as JSON then recompressed; thorough: all pairs of tree mutations inside the index subtree), stray files and sub-directories (names without a dot, without extension, uuid-like, directories in place of files); arguments: 32 field paths x 19 operators (padded and near-miss spellings included) x 26 value kinds, each also under limits {0,1,2,2^62,max} with One/AssignOne/AssignUnique/Collect on empty and non-empty collections under three index configurations, also as And/Or refinements. Each case: fresh handle, the public call set (first load, Control, Get, Exist, Count, All, 7 searches with Collect/Assign/One/And/Or, AssignIndex, inserts, update and Delete of every object the directory names, batch, Repair, DeleteAll, Create, Close), every call under recover. Oracle: no panic, no hang (30 s wall watchdog per case, reported as a hang), no objects from a search that reported an error. states = distinct mutated directories; non-trivial = all but the unmodified control case.",
		"bases":       len(bases),
		"assumptions": []string{"the documented misuse of Assign/AssignIndex targets is not exercised", "one mutation per file (thorough: two inside the index subtree)"},
	})
}

func safeEdit(root interface{}, p jpath, op string, val interface{}) (out interface{}, ok bool) {
	defer func() {
		if r := recover(); r != nil {
			ok = false
		}
	}()
	return editJSON(root, p, op, val)
}
