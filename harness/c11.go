package main

import (
	"bytes"
	"compress/gzip"
	"encoding/json"
	"fmt"
	"sort"
	"strings"

	"github.com/0xrawsec/sod"
	"github.com/0xrawsec/sod/zzverif/vfs"
	"github.com/0xrawsec/sod/zzverif/vrt"
)

func init() { drivers["C11"] = runC11 }

// removeIndexEntries edits schema.json as generic JSON: the object with uuid is
// removed from object-ids and from every field index.
func removeIndexEntries(schema []byte, uuid string, where string) ([]byte, error) {
	dec := json.NewDecoder(bytes.NewReader(schema))
	dec.UseNumber()
	var doc map[string]interface{}
	if err := dec.Decode(&doc); err != nil {
		return nil, err
	}
	idx, _ := doc["index"].(map[string]interface{})
	if idx == nil {
		return nil, fmt.Errorf("schema.json has no index")
	}
	ids, _ := idx["object-ids"].(map[string]interface{})
	var oid string
	for k, v := range ids {
		if s, _ := v.(string); s == uuid {
			oid = k
		}
	}
	if oid == "" {
		return nil, fmt.Errorf("uuid not in object-ids")
	}
	if where == "all" || where == "ids" {
		delete(ids, oid)
	}
	if where == "all" || where == "fields" || where == "onefield" {
		fields, _ := idx["fields"].(map[string]interface{})
		names := make([]string, 0, len(fields))
		for n := range fields {
			names = append(names, n)
		}
		sort.Strings(names)
		for _, n := range names {
			f, _ := fields[n].(map[string]interface{})
			list, _ := f["index"].([]interface{})
			var keep []interface{}
			for _, e := range list {
				t, _ := e.([]interface{})
				if len(t) == 2 && fmt.Sprint(t[1]) == oid {
					continue
				}
				keep = append(keep, e)
			}
			if keep == nil {
				keep = []interface{}{}
			}
			f["index"] = keep
			if where == "onefield" {
				break
			}
		}
	}
	return json.Marshal(doc)
}

// encodeObjectFile renders r as sod stores it under cfg (independent code).
func encodeObjectFile(r *Rec, cfg Cfg) []byte {
	data, _ := json.Marshal(r)
	if !cfg.Compress {
		return data
	}
	var buf bytes.Buffer
	zw, _ := gzip.NewWriterLevel(&buf, gzip.BestSpeed)
	zw.Write(data)
	zw.Close()
	return buf.Bytes()
}

type c11Case struct {
	Obj      []int // per stored object: 0 intact, 1 file removed, 2 index entry removed, 3 both
	Extra    int   // extra well-formed object files
	NoSchema bool
	Reuse    bool // the first extra file carries the unique values of a removed object
}

func runC11(c *Ctx) {
	cfgs := []Cfg{{}, {Cache: true}, {Compress: true}, {Async: 1}, {Ext: ".v1.obj"}, {Lower: true}}
	bases := [][]Op{
		{},
		{{Op: "ins", V: 1, K: 0}},
		{{Op: "ins", V: 1, K: 0}, {Op: "ins", V: 1, K: 2}},
		{{Op: "ins", V: 1, K: 0}, {Op: "ins", V: 2, K: 2}, {Op: "ins", V: 3, K: 3}},
		{{Op: "ins", V: 1, K: 0}, {Op: "ins", V: 2, K: 2}, {Op: "upd", Slot: 0, V: 3, K: 0}},
		{{Op: "ins", V: 1, K: 0}, {Op: "ins", V: 2, K: 2}, {Op: "del", Slot: 0}},
	}
	if c.Tier == "thorough" {
		cfgs = append(cfgs, Cfg{Index: 2, Compress: true, Ext: ".v1.obj"}, Cfg{Index: 1, Lower: true}, Cfg{Index: 3})
		bases = append(bases, enumPaths([]Op{{Op: "ins", V: 0, K: 0}, {Op: "ins", V: 1, K: 2}, {Op: "upd", Slot: 0, V: 2, K: 3}, {Op: "del", Slot: 1}, {Op: "reopen"}}, 3)...)
	}
	item := 0
	for _, cfg := range cfgs {
		for _, base := range bases {
			// build the healthy directory once
			var healthy *vfs.FS
			var model *Model
			okBase := true
			RunPath(cfg, "C11", nil, func(w *World) {
				for _, op := range base {
					if !w.Applicable(op) {
						okBase = false
						return
					}
					w.Apply(op)
				}
				if err := w.DB.Close(); err != nil || len(w.Viol) > 0 {
					okBase = false
					return
				}
				healthy = w.FS.Clone()
				model = w.M.Clone()
			})
			if !okBase {
				continue
			}
			uuids := model.UUIDs()
			// enumerate all fault assignments
			var cases []c11Case
			n := len(uuids)
			total := 1
			for i := 0; i < n; i++ {
				total *= 4
			}
			for code := 0; code < total; code++ {
				obj := make([]int, n)
				x := code
				for i := 0; i < n; i++ {
					obj[i] = x % 4
					x /= 4
				}
				for extra := 0; extra <= 2; extra++ {
					for _, ns := range []bool{false, true} {
						cases = append(cases, c11Case{Obj: obj, Extra: extra, NoSchema: ns})
						if extra > 0 {
							cases = append(cases, c11Case{Obj: obj, Extra: extra, NoSchema: ns, Reuse: true})
						}
					}
				}
			}
			// detection-only probes: the index is made internally inconsistent
			// (entry removed from object-ids only / from the field indexes only / from one field index only)
			for i := range uuids {
				for _, where := range []string{"ids", "fields", "onefield"} {
					item++
					if item%c.NShards != c.Shard {
						continue
					}
					viol := runC11Partial(cfg, base, healthy, uuids[i], where)
					c.Count("evaluations", 1)
					c.Count("detection_only_probes", 1)
					c.Distinct("states", cfg.String()+jsonOf(base)+where+fmt.Sprint(i))
					c.Distinct("distinct_nontrivial", cfg.String()+jsonOf(base)+where+fmt.Sprint(i))
					for _, v := range viol {
						c.Violation(v)
					}
				}
			}
			for _, cs := range cases {
				item++
				if item%c.NShards != c.Shard {
					continue
				}
				if c.Expired() {
					c.Count("depth_incomplete", 1)
					return
				}
				viol := runC11Case(cfg, base, healthy, model, uuids, cs)
				c.Count("evaluations", 1)
				c.Count("transitions", 1)
				c.Count("paths_replayed", 1)
				key := cfg.String() + jsonOf(base) + jsonOf(cs)
				c.Distinct("states", key)
				nontrivial := cs.Extra > 0 || cs.NoSchema
				for _, o := range cs.Obj {
					if o != 0 {
						nontrivial = true
					}
				}
				if nontrivial {
					c.Distinct("distinct_nontrivial", key)
				}
				for _, v := range viol {
					c.Violation(v)
				}
				if item < 50 && nontrivial {
					c.Sample(map[string]interface{}{"cfg": cfg, "base": base, "faults": cs})
				}
			}
		}
	}
	// Repair and Control on a *live* handle: with asynchronous writes some objects are accepted
	// but not yet on disk; Repair on the healthy collection must lose nothing and change nothing
	liveAlphabet := []Op{{Op: "ins", V: 1, K: 0}, {Op: "ins", V: 2, K: 2}, {Op: "upd", Slot: 0, V: 3, K: 3}, {Op: "del", Slot: 0}, {Op: "tick"}, {Op: "many", Batch: []Mem{{Kind: "fresh", V: 2, K: 3}, {Kind: "fresh", V: 3, K: 4}}}}
	liveDepth := 3
	if c.Tier == "thorough" {
		liveDepth = 4
	}
	for _, cfg := range []Cfg{{Async: 1}, {Async: 2, Cache: true}, {Async: 1, Lower: true, Compress: true}, {Cache: true}} {
		for _, hist := range enumPaths(liveAlphabet, liveDepth) {
			item++
			if item%c.NShards != c.Shard {
				continue
			}
			cfg, hist := cfg, hist
			applicable := true
			res := RunPath(cfg, "C11", nil, func(w *World) {
				for _, op := range hist {
					if !w.Applicable(op) || (op.Op == "tick" && cfg.Async == 0) {
						applicable = false
						return
					}
					w.Apply(op)
				}
				if len(w.Viol) > 0 {
					return
				}
				before := w.Observe(ObsOpt{Ordered: true}, nil)
				w.Apply(Op{Op: "repair"})
				if err := w.DB.Control(); err != nil && cfg.Async == 0 {
					w.fail("control-after-repair|live", "Control fails after Repair on a healthy live handle: "+err.Error())
				}
				if after := w.Observe(ObsOpt{Ordered: true}, nil); after != before {
					w.fail("repair-changed-reads|live|"+diffKind(before, after), "Repair on a healthy live handle changed what reads return:\n"+firstDiff(before, after))
				}
				w.SweepBasic()
				w.Apply(Op{Op: "reopen"})
				w.SweepBasic()
				if err := w.DB.Control(); err != nil {
					w.fail("control-after-repair|reopened", "after Repair on a live handle, Close and Open, Control fails: "+err.Error())
				}
			})
			if !applicable {
				continue
			}
			c.Count("evaluations", 1)
			c.Count("transitions", 1)
			c.Count("paths_replayed", 1)
			key := "live|" + cfg.String() + jsonOf(hist)
			c.Distinct("states", key)
			c.Distinct("distinct_nontrivial", key)
			for _, v := range res.W.Viol {
				c.Violation(v)
			}
		}
	}
	// the whole collection directory disappears under a live handle (Drop, or an external removal):
	// Control on that handle must report the indexed objects as missing
	for _, cfg := range []Cfg{{}, {Cache: true}, {Compress: true, Lower: true}} {
		for _, hist := range enumPaths(liveAlphabet[:4], 2) {
			item++
			if item%c.NShards != c.Shard {
				continue
			}
			cfg, hist := cfg, hist
			applicable := true
			res := RunPath(cfg, "C11", nil, func(w *World) {
				for _, op := range hist {
					if !w.Applicable(op) {
						applicable = false
						return
					}
					w.Apply(op)
				}
				if len(w.Viol) > 0 {
					return
				}
				w.FS.Del(w.collDir())
				err := w.DB.Control()
				if len(w.M.Objs) > 0 && !sod.IsIndexCorrupted(err) {
					w.fail("undetected|directory-removed", fmt.Sprintf("the collection directory was removed under a live handle indexing %d objects; Control returns %v", len(w.M.Objs), err))
				}
			})
			if !applicable {
				continue
			}
			c.Count("evaluations", 1)
			c.Count("transitions", 1)
			key := "dirgone|" + cfg.String() + jsonOf(hist)
			c.Distinct("states", key)
			c.Distinct("distinct_nontrivial", key)
			for _, v := range res.W.Viol {
				c.Violation(v)
			}
		}
	}
	runBigC11(c)
	c.Meta(map[string]interface{}{
		"rule":    "(big collections: 999 objects (thorough 63..4095, sizes around powers of two and multiples of 1000): no alarm on the intact collection from the live handle and from a new one; one file removed: detected at load, Repair converges.) (live handles: every history of depth <= 3 (thorough 4) over 6 letters incl. the virtual-time tick, under 3 asynchronous and 1 cached configuration, then Repair on the live handle holding pending writes: nothing lost, reads unchanged, Control quiet after Close and Open.) for every base database (histories listed in evidence; closed, so async writes are on disk) and configuration: every assignment of {intact, file removed, index entry removed from object-ids and every field index by editing schema.json as JSON, both} to each stored object x {0,1,2} extra well-formed object files with fresh ids x {schema present, removed} (4^n*6 cases per base, exhaustive). Oracle: first load / Control report corruption iff indexed ids != file ids (no false positive on the healthy case); after (Create if needed and) Repair: Control = nil, index agrees with files decoded without sod code through every indexed field, every object file byte-identical (none modified, none deleted). Non-trivial = cases with at least one fault.",
		"configs": cfgs, "bases": len(bases),
	})
}

func runC11Case(cfg Cfg, base []Op, healthy *vfs.FS, model *Model, uuids []string, cs c11Case) []Violation {
	var viol []Violation
	fail := func(sig, what string) {
		viol = append(viol, Violation{Sig: "C11|" + sig, What: what, Cfg: cfg, Path: base, More: map[string]interface{}{"faults": cs}})
	}
	fsys := healthy.Clone()
	dir := findCollDir(fsys, dbRoot)
	if dir == "" {
		return nil
	}
	ext := cfg.BaseExt()
	if cfg.Compress {
		ext += ".gz"
	}
	schemaPath := dir + "/schema.json"
	schema, _ := fsys.Get(schemaPath)
	indexed := map[string]bool{}
	onDisk := map[string]bool{}
	for i, u := range uuids {
		indexed[u], onDisk[u] = true, true
		if cs.Obj[i]&1 != 0 {
			fsys.Del(dir + "/" + u + ext)
			delete(onDisk, u)
		}
		if cs.Obj[i]&2 != 0 {
			ns, err := removeIndexEntries(schema, u, "all")
			if err != nil {
				fail("harness-edit", "cannot edit schema.json: "+err.Error())
				return viol
			}
			schema = ns
			delete(indexed, u)
		}
	}
	fsys.Put(schemaPath, schema)
	// the first extra file re-uses the unique values of the first object whose file was removed
	// (somebody replaced an object by another one): legitimate, the old entry has to go
	var reuse *Rec
	for i, u := range uuids {
		if cs.Obj[i]&1 != 0 && cs.Reuse {
			reuse = model.Objs[u]
			break
		}
	}
	for e := 0; e < cs.Extra; e++ {
		r := NewRec(2, 0)
		r.K = fmt.Sprintf("EXTRA%d", e)
		r.N = int64(1000 + e)
		if e == 0 && reuse != nil {
			r.K, r.N = reuse.K, reuse.N
		}
		r.U16 = uint16(100 + e)
		r.P = 100 + e
		r.S = fmt.Sprintf("extra%d", e) // S is unique under the custom-schema configuration
		u := fmt.Sprintf("eeeeeeee-0000-4000-8000-00000000000%d", e)
		fsys.Put(dir+"/"+u+ext, encodeForeignObjectFile(r, cfg))
		onDisk[u] = true
	}
	if cs.NoSchema {
		fsys.Del(schemaPath)
		indexed = map[string]bool{}
	}
	differ := !setEq(indexed, onDisk)
	// snapshot of object files
	before := map[string]uint64{}
	for _, p := range fsys.Paths(dir) {
		if !strings.HasSuffix(p, "schema.json") {
			d, _ := fsys.Get(p)
			before[p] = fnvBytes(d)
		}
	}
	x := vrt.Run(vrt.Config{Sequential: true, MaxTicks: 100}, func() {
		vfs.Cur = fsys
		setGlobals(cfg)
		db := sod.Open(dbRoot)
		_, err := db.Schema(&Rec{})
		if cs.NoSchema {
			if err == nil {
				fail("load-without-schema", "first load succeeds although schema.json is missing")
				return
			}
			cerr := db.Create(&Rec{}, cfg.Schema(&Rec{}))
			if len(onDisk) > 0 && !sod.IsIndexCorrupted(cerr) {
				fail("create-over-orphans-silent", fmt.Sprintf("Create on a directory holding %d object files but no schema returned %v, expected the corruption report", len(onDisk), cerr))
				return
			}
			if len(onDisk) == 0 && cerr != nil {
				fail("create-failed", "Create on an empty directory failed: "+cerr.Error())
				return
			}
		} else {
			switch {
			case differ && !sod.IsIndexCorrupted(err):
				fail("load-misses-divergence", fmt.Sprintf("indexed ids differ from object files but the first load returned %v", err))
				return
			case !differ && err != nil:
				fail("load-false-positive", "index and files agree but the first load failed: "+err.Error())
				return
			}
			cerr := db.Control()
			switch {
			case differ && !sod.IsIndexCorrupted(cerr):
				fail("control-misses-divergence", fmt.Sprintf("indexed ids differ from object files but Control returned %v", cerr))
				return
			case !differ && cerr != nil:
				fail("control-false-positive", "index and files agree but Control failed: "+cerr.Error())
				return
			}
		}
		if rerr := db.Repair(&Rec{}); rerr != nil {
			fail("repair-failed", "Repair failed: "+rerr.Error())
			return
		}
		if cerr := db.Control(); cerr != nil {
			fail("control-after-repair", "Control fails after Repair: "+cerr.Error())
			return
		}
		files, bad := decodeFiles(fsys, dir, cfg)
		if len(bad) > 0 {
			fail("harness-decode", "object files undecodable")
			return
		}
		if pr := agree(db, cfg, files); len(pr) > 0 {
			fail("disagree-after-repair", "after Repair searches do not reflect file contents: "+strings.Join(pr, "; "))
			return
		}
		// none modified, none deleted
		for p, h := range before {
			d, ok := fsys.Get(p)
			if !ok {
				fail("repair-deleted-file", "Repair deleted an object file")
				return
			}
			if fnvBytes(d) != h {
				fail("repair-modified-file", "Repair modified an object file")
				return
			}
		}
		// and the repaired state survives Close / Open
		if err := db.Close(); err != nil {
			fail("close-after-repair", "Close after Repair failed: "+err.Error())
			return
		}
		db2 := sod.Open(dbRoot)
		if _, err := db2.Schema(&Rec{}); err != nil {
			fail("reload-after-repair", "first load after Repair+Close fails: "+err.Error())
			return
		}
		if pr := agree(db2, cfg, files); len(pr) > 0 {
			fail("disagree-after-repair-reload", "after Repair, Close and Open searches do not reflect file contents: "+strings.Join(pr, "; "))
		}
	})
	for _, p := range x.Panics {
		fail("panic|"+firstLine(p.Value), "panic: "+p.Value+"\n"+trimStack(p.Stack))
	}
	return viol
}

// runC11Partial: an internally inconsistent index must be reported by the first
// load (or by Control) with an error; nothing is required of Repair here.
func runC11Partial(cfg Cfg, base []Op, healthy *vfs.FS, uuid, where string) []Violation {
	var viol []Violation
	fail := func(sig, what string) {
		viol = append(viol, Violation{Sig: "C11|" + sig, What: what, Cfg: cfg, Path: base, More: map[string]interface{}{"partial_removal": where}})
	}
	fsys := healthy.Clone()
	dir := findCollDir(fsys, dbRoot)
	schema, _ := fsys.Get(dir + "/schema.json")
	ns, err := removeIndexEntries(schema, uuid, where)
	if err != nil {
		return nil
	}
	if string(ns) == string(schema) {
		return nil
	}
	fsys.Put(dir+"/schema.json", ns)
	x := vrt.Run(vrt.Config{Sequential: true, MaxTicks: 100}, func() {
		vfs.Cur = fsys
		setGlobals(cfg)
		db := sod.Open(dbRoot)
		_, lerr := db.Schema(&Rec{})
		cerr := db.Control()
		if lerr == nil && cerr == nil {
			fail("inconsistent-index-unnoticed|"+where, "an index entry was removed from "+where+" only; neither the first load nor Control report anything")
		}
	})
	for _, p := range x.Panics {
		fail("panic|"+firstLine(p.Value), "panic: "+p.Value+"\n"+trimStack(p.Stack))
	}
	return viol
}

// encodeForeignObjectFile renders r the way another tool could: indented, with
// a key the struct does not know and a trailing newline. Still a well-formed
// object file; Repair must index it and leave its bytes alone.
func encodeForeignObjectFile(r *Rec, cfg Cfg) []byte {
	plain, _ := json.Marshal(r)
	var m map[string]interface{}
	dec := json.NewDecoder(bytes.NewReader(plain))
	dec.UseNumber()
	dec.Decode(&m)
	m["zz_written_by"] = "another tool"
	data, _ := json.MarshalIndent(m, "", "\t")
	data = append(data, '\n')
	if !cfg.Compress {
		return data
	}
	var buf bytes.Buffer
	zw, _ := gzip.NewWriterLevel(&buf, gzip.BestCompression)
	zw.Write(data)
	zw.Close()
	return buf.Bytes()
}
