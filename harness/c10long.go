package main

import (
	"bytes"
	"compress/gzip"
	"encoding/json"
	"fmt"
	"io"
	"strings"
	"time"

	"github.com/0xrawsec/sod"
	"github.com/0xrawsec/sod/zzverif/vfs"
	"github.com/0xrawsec/sod/zzverif/vrt"
)

// Longer asynchronous histories: the breadth-first part of C10 reaches at most a
// handful of pending writes with the thresholds 2 and 100. Here every sequence
// of length L over {insert, update the oldest live object, delete the oldest
// live object, let one clock step pass} runs under thresholds 2, 3 and 5 with a
// short and a practically infinite timeout, so that the pending count passes the
// threshold by several and objects are updated/deleted while pending in longer
// queues.

func asyncLongSweep(c *Ctx, thr int, infinite bool, compress bool, length, idx int) []Violation {
	var viol []Violation
	ops := make([]int, length)
	x := idx
	for i := 0; i < length; i++ {
		ops[i] = x % 4
		x /= 4
	}
	names := []string{"ins", "upd", "del", "tick"}
	var hist []string
	for _, o := range ops {
		hist = append(hist, names[o])
	}
	timeout := 2 * step
	if infinite {
		timeout = 1000 * step
	}
	fail := func(sig, what string) {
		if len(viol) < 3 {
			viol = append(viol, Violation{Sig: "C10|long|" + sig, What: what + fmt.Sprintf("\n  history %v, threshold %d, timeout %v, compression %v", hist, thr, timeout, compress)})
		}
	}
	ex := vrt.Run(vrt.Config{Sequential: true, MaxTicks: 60}, func() {
		setGlobals(Cfg{})
		fsys := vfs.New()
		vfs.Cur = fsys
		db := sod.Open(dbRoot)
		sch := sod.DefaultSchema
		sch.Compress = compress
		sch.Asynchrone(thr, timeout)
		if err := db.Create(&Wide{}, sch); err != nil {
			fail("create", "Create failed: "+err.Error())
			return
		}
		cfg := Cfg{Compress: compress}
		model := map[string]*Wide{}
		var order []string // live objects, oldest first
		dead := map[string]bool{}
		serial := 0
		dirOf := func() string { return findCollDir(fsys, dbRoot) }
		// files decoded without sod
		files := func() (map[string]string, bool) {
			out := map[string]string{}
			dir := dirOf()
			for _, p := range fsys.Paths(dir) {
				base := p[strings.LastIndex(p, "/")+1:]
				if strings.HasSuffix(p, "/") || strings.HasPrefix(base, ".") || strings.HasPrefix(base, "schema.json") || len(base) < 36 {
					continue
				}
				data, _ := fsys.Get(p)
				var w Wide
				if err := decodeMaybeGz(data, compress, &w); err != nil {
					return nil, false
				}
				out[base[:36]] = fmt.Sprintf("%d|%s|%d", w.A, w.K, w.N)
			}
			return out, true
		}
		valOf := func(w *Wide) string { return fmt.Sprintf("%d|%s|%d", w.A, w.K, w.N) }
		visible := func(when string) bool {
			all, err := db.All(&Wide{})
			if err != nil || len(all) != len(model) {
				fail("visibility|all", fmt.Sprintf("%s: All returns %d objects (%v), %d accepted", when, len(all), err, len(model)))
				return false
			}
			for _, o := range all {
				w := o.(*Wide)
				m, ok := model[w.UUID()]
				if !ok || valOf(m) != valOf(w) {
					fail("visibility|value", fmt.Sprintf("%s: All returns an object that is not the accepted version", when))
					return false
				}
			}
			for u := range model {
				o := &Wide{}
				o.Initialize(u)
				if ok, err := db.Exist(o); err != nil || !ok {
					fail("visibility|exist", fmt.Sprintf("%s: Exist of an accepted object = (%v, %v)", when, ok, err))
					return false
				}
			}
			for u := range dead {
				o := &Wide{}
				o.Initialize(u)
				if _, err := db.Get(o); err == nil {
					fail("visibility|deleted", when+": Get of a deleted object succeeds")
					return false
				}
			}
			fs, ok := files()
			if !ok {
				fail("file-undecodable", when+": an object file cannot be decoded")
				return false
			}
			for u := range fs {
				if dead[u] {
					fail("deleted-on-disk", when+": a deleted object has a file")
					return false
				}
			}
			return true
		}
		allOnDisk := func(when string) bool {
			fs, ok := files()
			if !ok {
				fail("file-undecodable", when+": an object file cannot be decoded")
				return false
			}
			for u, m := range model {
				if fs[u] != valOf(m) {
					fail("not-on-disk|"+strings.Fields(when)[0], fmt.Sprintf("%s: the accepted version of an object is not on disk (file: %q)", when, fs[u]))
					return false
				}
			}
			for u := range fs {
				if _, ok := model[u]; !ok {
					fail("stray-file|"+strings.Fields(when)[0], when+": a file exists for an object that is not stored")
					return false
				}
			}
			return true
		}
		clock := 0
		acceptedAt := map[string]int{} // uuid -> clock at which its current version was accepted
		for i, op := range ops {
			switch names[op] {
			case "ins":
				serial++
				o := &Wide{A: serial % 3, B: wideB(serial % 3), U: serial, Seq: serial, K: fmt.Sprintf("k%d", serial), N: serial}
				if err := db.InsertOrUpdate(o); err != nil {
					fail("insert", "insert failed: "+err.Error())
					return
				}
				model[o.UUID()] = o
				acceptedAt[o.UUID()] = clock
				order = append(order, o.UUID())
			case "upd":
				if len(order) == 0 {
					continue
				}
				serial++
				u := order[0]
				o := &Wide{A: serial % 3, B: wideB(serial % 3), U: serial, Seq: serial, K: fmt.Sprintf("k%d", serial), N: serial}
				o.Initialize(u)
				if err := db.InsertOrUpdate(o); err != nil {
					fail("update", "update failed: "+err.Error())
					return
				}
				model[u] = o
				acceptedAt[u] = clock
				order = append(order[1:], u)
			case "del":
				if len(order) == 0 {
					continue
				}
				u := order[0]
				o := &Wide{}
				o.Initialize(u)
				if err := db.Delete(o); err != nil {
					fail("delete", "delete failed: "+err.Error())
					return
				}
				delete(model, u)
				dead[u] = true
				order = order[1:]
			case "tick":
				vrt.Tick(1)
				clock++
				if !infinite {
					// the writer flushes everything once per timeout period: a version accepted
					// more than a period (and two polling steps) ago is on disk, whatever was
					// written since
					fs, _ := files()
					for u, m := range model {
						if clock-acceptedAt[u] >= int(timeout/step)+2 && fs[u] != valOf(m) {
							fail("timeout-missed-midway", fmt.Sprintf("after call %d: a version accepted %d clock steps ago (timeout %v) is still not on disk while other calls keep coming", i+1, clock-acceptedAt[u], timeout))
							return
						}
					}
				}
			}
			if !visible(fmt.Sprintf("after call %d (%s)", i+1, names[op])) {
				return
			}
			c.Count("evaluations", 1)
		}
		// deadline: without any further call
		fs, _ := files()
		pending := 0
		for u, m := range model {
			if fs[u] != valOf(m) {
				pending++
			}
		}
		if !infinite {
			vrt.Tick(int(timeout/step) + 2)
			if !allOnDisk(fmt.Sprintf("timeout: %v and two more clock steps passed without any call", timeout)) {
				return
			}
		} else if pending >= thr {
			vrt.Tick(2)
			if !allOnDisk(fmt.Sprintf("threshold: %d writes were pending (threshold %d) and two clock steps passed without any call", pending, thr)) {
				return
			}
		}
		if !visible("after the deadline") {
			return
		}
		if err := db.FlushAllAndCommit(&Wide{}); err != nil {
			fail("flushall-err", "FlushAllAndCommit failed: "+err.Error())
			return
		}
		if !allOnDisk("barrier: FlushAllAndCommit returned") {
			return
		}
		if err := db.Close(); err != nil {
			fail("close", "Close failed: "+err.Error())
			return
		}
		if !allOnDisk("close: Close returned") {
			return
		}
		db2 := sod.Open(dbRoot)
		if n, err := db2.Count(&Wide{}); err != nil || n != len(model) {
			fail("second-handle", fmt.Sprintf("a new handle counts (%d, %v), %d accepted", n, err, len(model)))
			return
		}
		if err := db2.Control(); err != nil {
			fail("second-handle-control", "Control on a new handle fails: "+err.Error())
		}
		_ = cfg
		_ = time.Second
	})
	for _, p := range ex.Panics {
		fail("panic|"+normPanic(p.Value+" @ "+sodFrame(p.Stack)), "panic: "+p.Value+"\n"+trimStack(p.Stack))
	}
	if ex.Deadlock || ex.Horizon {
		fail("stuck", "the history blocked")
	}
	return viol
}

func runC10Long(c *Ctx) {
	length := 6
	thrs := []int{2, 3, 5}
	if c.Tier == "thorough" {
		length = 8
		thrs = []int{1, 2, 3, 4, 5, 7}
	}
	total := 1
	for i := 0; i < length; i++ {
		total *= 4
	}
	item := 0
	for _, thr := range thrs {
		for _, infinite := range []bool{false, true} {
			for order := 0; order < 3; order++ {
				item++
				if item%c.NShards != c.Shard {
					continue
				}
				for _, v := range asyncSeveralCollections(c, thr, infinite, order) {
					c.Violation(v)
				}
				c.Count("transitions", 2*thr+4)
				key := fmt.Sprintf("collections|%d|%v|%d", thr, infinite, order)
				c.Distinct("states", key)
				c.Distinct("distinct_nontrivial", key)
			}
		}
	}
	for _, thr := range thrs {
		for _, infinite := range []bool{false, true} {
			for idx := 0; idx < total; idx++ {
				item++
				if item%c.NShards != c.Shard {
					continue
				}
				if c.Expired() {
					c.Count("depth_incomplete", 1)
					return
				}
				compress := idx%2 == 1
				for _, v := range asyncLongSweep(c, thr, infinite, compress, length, idx) {
					c.Violation(v)
				}
				c.Count("transitions", length+4)
				c.Count("paths_replayed", 1)
				key := fmt.Sprintf("long|%d|%v|%d", thr, infinite, idx)
				c.Distinct("states", key)
				c.Distinct("distinct_nontrivial", key)
			}
		}
	}
}

// decodeMaybeGz decodes an object file independently of sod.
func decodeMaybeGz(data []byte, compressed bool, into interface{}) error {
	if compressed {
		zr, err := gzip.NewReader(bytes.NewReader(data))
		if err != nil {
			return err
		}
		d, err := io.ReadAll(zr)
		if err != nil {
			return err
		}
		data = d
	}
	return json.Unmarshal(data, into)
}

// Wide2 is a second collection type for the scenarios with several collections in one database.
type Wide2 struct {
	sod.Item
	A int    `sod:"index"`
	K string `sod:"unique"`
}

// asyncSeveralCollections: two (or three) collections created from ONE Schema value, as an
// application with a single "asynchronous" schema does: each collection has its own pending
// writes and each must meet its deadlines.
func asyncSeveralCollections(c *Ctx, thr int, infinite bool, order int) []Violation {
	var viol []Violation
	timeout := 2 * step
	if infinite {
		timeout = 1000 * step
	}
	fail := func(sig, what string) {
		if len(viol) < 3 {
			viol = append(viol, Violation{Sig: "C10|collections|" + sig, What: what + fmt.Sprintf("\n  two collections created from the same Schema value, threshold %d, timeout %v, write order %d", thr, timeout, order)})
		}
	}
	ex := vrt.Run(vrt.Config{Sequential: true, MaxTicks: 60}, func() {
		setGlobals(Cfg{})
		fsys := vfs.New()
		vfs.Cur = fsys
		db := sod.Open(dbRoot)
		sch := sod.DefaultSchema
		sch.Asynchrone(thr, timeout)
		if err := db.Create(&Wide{}, sch); err != nil {
			fail("create", "Create failed: "+err.Error())
			return
		}
		if err := db.Create(&Wide2{}, sch); err != nil {
			fail("create", "Create of the second collection failed: "+err.Error())
			return
		}
		n := thr + 1
		var ids1, ids2 []string
		ins1 := func(i int) bool {
			o := &Wide{A: i, B: wideB(i % 3), U: i, Seq: i, K: fmt.Sprintf("k%d", i), N: i}
			if err := db.InsertOrUpdate(o); err != nil {
				fail("insert", "insert failed: "+err.Error())
				return false
			}
			ids1 = append(ids1, o.UUID())
			return true
		}
		ins2 := func(i int) bool {
			o := &Wide2{A: i, K: fmt.Sprintf("k%d", i)}
			if err := db.InsertOrUpdate(o); err != nil {
				fail("insert", "insert into the second collection failed: "+err.Error())
				return false
			}
			ids2 = append(ids2, o.UUID())
			return true
		}
		for i := 0; i < n; i++ {
			switch order {
			case 0: // interleaved
				if !ins1(i) || !ins2(i) {
					return
				}
			case 1: // second collection first
				if !ins2(i) {
					return
				}
			case 2:
				if !ins1(i) {
					return
				}
			}
		}
		for i := 0; i < n && order != 0; i++ {
			if order == 1 && !ins1(i) {
				return
			}
			if order == 2 && !ins2(i) {
				return
			}
		}
		if infinite {
			vrt.Tick(2)
		} else {
			vrt.Tick(int(timeout/step) + 2)
		}
		onDisk := func(ids []string) int {
			cnt := 0
			for _, p := range fsys.Paths(dbRoot) {
				for _, u := range ids {
					if strings.Contains(p, u) && !strings.Contains(p, "/.") {
						cnt++
					}
				}
			}
			return cnt
		}
		why := fmt.Sprintf("the timeout (%v) and two clock steps passed", timeout)
		if infinite {
			why = fmt.Sprintf("%d writes are pending per collection (threshold %d) and two clock steps passed", n, thr)
		}
		if got := onDisk(ids1); got != n {
			fail("first-not-flushed", fmt.Sprintf("%s without any call: %d of the %d accepted objects of the first collection are on disk", why, got, n))
		}
		if got := onDisk(ids2); got != n {
			fail("second-not-flushed", fmt.Sprintf("%s without any call: %d of the %d accepted objects of the second collection are on disk", why, got, n))
		}
		if err := db.Close(); err != nil {
			fail("close", "Close failed: "+err.Error())
			return
		}
		if onDisk(ids1) != n || onDisk(ids2) != n {
			fail("close-incomplete", "Close returned but accepted objects are not on disk")
		}
		c.Count("evaluations", 1)
	})
	for _, p := range ex.Panics {
		fail("panic|"+normPanic(p.Value+" @ "+sodFrame(p.Stack)), "panic: "+p.Value+"\n"+trimStack(p.Stack))
	}
	if ex.Deadlock || ex.Horizon {
		fail("stuck", "the scenario blocked")
	}
	return viol
}
