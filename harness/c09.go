package main

import (
	"fmt"
	"strings"

	"github.com/0xrawsec/sod/zzverif/vrt"
)

func init() { drivers["C09"] = runC09 }

// every exported entry point, with arguments selecting the internal paths
// (indexed / unindexed search, search refinements, terminals, bulk paths...)
func entryPoints() []Call {
	return []Call{
		{Name: "get", Slot: 0}, {Name: "getbyuuid", Slot: 0}, {Name: "exist", Slot: 0}, {Name: "count"},
		{Name: "all"}, {Name: "assignall"}, {Name: "assignindex"}, {Name: "schema"}, {Name: "iterator"},
		{Name: "search", Field: "A", Cmp: ">=", Probe: 2}, {Name: "searchu", Field: "P", Cmp: "=", Probe: 1},
		{Name: "collect", Field: "A", Cmp: ">=", Probe: 2}, {Name: "collect", Field: "P", Cmp: ">=", Probe: 0},
		{Name: "andor", Field: "S", Cmp: "!=", Probe: 0}, {Name: "andor", Field: "L", Cmp: "!=", Probe: 0},
		{Name: "one", Field: "A", Cmp: ">=", Probe: 2}, {Name: "assignone", Field: "A", Cmp: ">=", Probe: 2},
		{Name: "assignunique", Field: "K", Cmp: "=", Probe: 0}, {Name: "assign", Field: "P", Cmp: ">=", Probe: 0},
		{Name: "expects", Field: "A", Cmp: ">=", Probe: 2}, {Name: "operation", Field: "P", Cmp: ">=", Probe: 0},
		{Name: "reverse-limit", Field: "A", Cmp: ">=", Probe: 2},
		{Name: "limitor", Field: "A", Cmp: ">=", Probe: 2, V: 1}, {Name: "limitor", Field: "A", Cmp: ">=", Probe: 2, V: 2}, {Name: "limitor", Field: "A", Cmp: ">=", Probe: 2, V: 0},
		{Name: "ins", V: 2, K: 3}, {Name: "upd", Slot: 0, V: 3, K: 0}, {Name: "many", V: 2, K: 3}, {Name: "bulk", V: 2, K: 3},
		{Name: "del", Slot: 0}, {Name: "delall"}, {Name: "deleteobjects"}, {Name: "sdel", Field: "A", Cmp: ">=", Probe: 2}, {Name: "sdel", Field: "P", Cmp: ">=", Probe: 0},
		{Name: "commit"}, {Name: "flushall"}, {Name: "flushallc"}, {Name: "flushandcommit", Slot: 0},
		{Name: "control"}, {Name: "create"}, {Name: "repair"}, {Name: "close"},
		// calls that end in an error path
		{Name: "orbad", V: 0}, {Name: "orbad", V: 1}, {Name: "orbad", V: 2}, {Name: "andbad", V: 0}, {Name: "andbad", V: 1},
		{Name: "searchbad"}, {Name: "insbad"}, {Name: "getabsent"},
		// live settings changes (stop / restart of the background writer)
		{Name: "settings", V: 0}, {Name: "settings", V: 2}, {Name: "settings", V: 5}, {Name: "settings", V: 6},
		// the whole database goes away under the other calls
		{Name: "drop"},
	}
}

func runC09(c *Ctx) {
	bound := 2
	cfgs := []Cfg{{}, {Async: 1}}
	partners := [][]Call{
		{{Name: "commit"}},
		{{Name: "ins", V: 3, K: 4}},
	}
	third := [][]Call{nil}
	if c.Tier == "thorough" {
		bound = 3
		cfgs = append(cfgs, Cfg{Cache: true}, Cfg{Async: 2, Cache: true, Index: 1})
		partners = append(partners, []Call{{Name: "get", Slot: 1}}, []Call{{Name: "all"}}, []Call{{Name: "commit"}, {Name: "count"}})
		third = append(third, []Call{{Name: "get", Slot: 0}}, []Call{{Name: "commit"}})
	}
	setup := []Op{{Op: "ins", V: 1, K: 0}, {Op: "ins", V: 2, K: 2}}
	item := 0
	sitesSeen := map[string]bool{}
	// larger collections: calls that walk every object (or every index entry) against a writer;
	// a lock taken again "every so many objects" only shows beyond that many
	bigCalls := []Call{
		{Name: "all"}, {Name: "assignall"}, {Name: "count"}, {Name: "assignindex"},
		{Name: "collect", Field: "P", Cmp: ">=", Probe: 0}, {Name: "searchu", Field: "P", Cmp: "=", Probe: 1}, {Name: "assign", Field: "P", Cmp: ">=", Probe: 0},
		{Name: "collect", Field: "A", Cmp: ">=", Probe: 2}, {Name: "andor", Field: "L", Cmp: "!=", Probe: 0},
		{Name: "sdel", Field: "P", Cmp: ">=", Probe: 0}, {Name: "delall"}, {Name: "deleteobjects"},
		{Name: "control"}, {Name: "repair"}, {Name: "close"},
		{Name: "limitor", Field: "A", Cmp: ">=", Probe: 2, V: 5}, {Name: "limitor", Field: "A", Cmp: ">=", Probe: 2, V: 64},
	}
	bigSizes := []int{70}
	if c.Tier == "thorough" {
		bigSizes = []int{33, 70, 130}
	}
	for _, cfg := range []Cfg{{}, {Cache: true}} {
		for _, size := range bigSizes {
			for _, a := range bigCalls {
				for _, partner := range [][]Call{{{Name: "commit"}}, {{Name: "ins", V: 3, K: 4}}} {
					item++
					if item%c.NShards != c.Shard {
						continue
					}
					prog := Prog{Cfg: cfg, Setup: []Op{{Op: "fill", V: size}}, Threads: [][]Call{{a}, partner}, Ticks: 1}
					reported := false
					st := exploreSchedules(1, 200000, func(prefix []int) *vrt.Exec {
						r := runProg(prog, prefix, 1, func(w *World, r *ExecResult) {
							w.DB.Count(&Rec{})
							w.DB.Commit(&Rec{})
						})
						return r.X
					}, func(x *vrt.Exec, choices []int) bool {
						c.Count("schedules", 1)
						c.Count("evaluations", 1)
						c.Count("transitions", x.NPoints+1)
						if x.Deadlock || x.Horizon {
							c.Count("deadlocks", 1)
							if !reported {
								reported = true
								kind := "deadlock"
								if x.Horizon {
									kind = "no-progress"
								}
								c.Violation(Violation{
									Sig:  fmt.Sprintf("C09|%s|big|call=%s|blocked=%s", kind, a.Name, normBlocked(append([]string{}, x.Blocked...))),
									What: fmt.Sprintf("on a collection of %d objects, with this schedule the calls wait for each other forever: %v\n  program: %s", size, x.Blocked, jsonOf(prog)),
									Cfg:  cfg, More: map[string]interface{}{"program": prog, "schedule": choices},
								})
							}
							return false
						}
						for _, p := range x.Panics {
							c.Violation(Violation{Sig: "C09|panic|big|" + a.Name + "|" + normPanic(p.Value+" @ "+sodFrame(p.Stack)), What: "panic in " + p.Name + ": " + p.Value + "\n" + trimStack(p.Stack), Cfg: cfg, More: map[string]interface{}{"program": prog, "schedule": choices}})
							return false
						}
						return true
					})
					c.Count("programs", 1)
					c.Count("paths_replayed", st.Execs)
					c.Max("max_points", st.MaxPoints)
					c.Distinct("states", jsonOf(prog))
					c.Distinct("distinct_nontrivial", jsonOf(prog))
				}
			}
		}
	}
	// the same entry points on a collection holding an object whose file is missing or unreadable:
	// error paths and "continue past the error" loops must terminate and release their locks
	damagedCalls := []Call{
		{Name: "get", Slot: 0}, {Name: "all"}, {Name: "assignall"}, {Name: "collect", Field: "A", Cmp: ">=", Probe: 2}, {Name: "collect", Field: "P", Cmp: ">=", Probe: 0},
		{Name: "searchu", Field: "P", Cmp: "=", Probe: 1}, {Name: "one", Field: "A", Cmp: ">=", Probe: 2}, {Name: "assign", Field: "P", Cmp: ">=", Probe: 0},
		{Name: "upd", Slot: 0, V: 3, K: 0}, {Name: "del", Slot: 0}, {Name: "delall"}, {Name: "deleteobjects"},
		{Name: "sdel", Field: "A", Cmp: ">=", Probe: 2}, {Name: "sdel", Field: "P", Cmp: ">=", Probe: 0},
		{Name: "control"}, {Name: "repair"}, {Name: "create"}, {Name: "close"},
	}
	for _, cfg := range []Cfg{{}, {Cache: true}, {Async: 1}} {
		for _, damage := range []string{"missing-file", "garbled-file"} {
			for _, cold := range []bool{false, true} {
				for _, a := range damagedCalls {
					item++
					if item%c.NShards != c.Shard {
						continue
					}
					prog := Prog{Cfg: cfg, Setup: setup, Cold: cold, Threads: [][]Call{{a}, {{Name: "commit"}}}, Ticks: 3, Damage: damage}
					reported := false
					st := exploreSchedules(1, 200000, func(prefix []int) *vrt.Exec {
						r := runProg(prog, prefix, 1, func(w *World, r *ExecResult) {
							w.DB.Count(&Rec{})
							w.DB.Commit(&Rec{})
							vrt.Tick(2)
							w.DB.Count(&Rec{})
							w.DB.Commit(&Rec{})
						})
						return r.X
					}, func(x *vrt.Exec, choices []int) bool {
						c.Count("schedules", 1)
						c.Count("evaluations", 1)
						c.Count("transitions", x.NPoints+1)
						if x.Deadlock || x.Horizon {
							c.Count("deadlocks", 1)
							if !reported {
								reported = true
								kind := "deadlock"
								if x.Horizon {
									kind = "no-progress"
								}
								c.Violation(Violation{
									Sig:  fmt.Sprintf("C09|%s|damaged|call=%s|blocked=%s", kind, a.Name, normBlocked(append([]string{}, x.Blocked...))),
									What: fmt.Sprintf("on a collection with one %s, with this schedule the calls never finish: %v\n  program: %s", damage, x.Blocked, jsonOf(prog)),
									Cfg:  cfg, More: map[string]interface{}{"program": prog, "schedule": choices},
								})
							}
							return false
						}
						for _, p := range x.Panics {
							c.Violation(Violation{Sig: "C09|panic|damaged|" + a.Name + "|" + normPanic(p.Value+" @ "+sodFrame(p.Stack)), What: "panic in " + p.Name + ": " + p.Value + "\n" + trimStack(p.Stack), Cfg: cfg, More: map[string]interface{}{"program": prog, "schedule": choices}})
							return false
						}
						return true
					})
					c.Count("programs", 1)
					c.Count("paths_replayed", st.Execs)
					c.Distinct("states", jsonOf(prog))
					c.Distinct("distinct_nontrivial", jsonOf(prog))
				}
			}
		}
	}
	for _, cfg := range cfgs {
		for _, cold := range []bool{false, true} {
			if cold && c.Tier == "quick" && cfg.Async != 0 {
				continue
			}
			for _, a := range entryPoints() {
				for _, b := range partners {
					for _, t3 := range third {
						item++
						if item%c.NShards != c.Shard {
							continue
						}
						if c.Expired() {
							c.Count("depth_incomplete", 1)
							return
						}
						threads := [][]Call{{a}, b}
						if t3 != nil {
							threads = append(threads, t3)
						}
						prog := Prog{Cfg: cfg, Setup: setup, Cold: cold, Threads: threads, Ticks: 3}
						reported := false
						bound := bound
						if c.Tier == "quick" && !(cfg.Async == 0 && !cold && b[0].Name == "commit") {
							// quick: the full bound only against the plain write-lock taker on a warm synchronous handle
							bound = 1
						}
						st := exploreSchedules(bound, 200000, func(prefix []int) *vrt.Exec {
							r := runProg(prog, prefix, bound, func(w *World, r *ExecResult) {
								// whatever happened, the handle must still serve a reader and a writer
								// (a lock leaked on an error path only shows on the next call)
								w.DB.Count(&Rec{})
								w.DB.Commit(&Rec{})
								vrt.Tick(2)
								w.DB.Count(&Rec{})
								w.DB.Commit(&Rec{})
							})
							if !r.Started && r.W != nil && len(r.W.Viol) > 0 {
								c.Count("setup_failures", 1)
							}
							return r.X
						}, func(x *vrt.Exec, choices []int) bool {
							c.Count("schedules", 1)
							c.Count("evaluations", 1)
							c.Count("transitions", x.NPoints+1)
							if x.Deadlock || x.Horizon {
								c.Count("deadlocks", 1)
								if !reported {
									reported = true
									kind := "deadlock"
									if x.Horizon {
										kind = "no-progress"
									}
									blocked := append([]string{}, x.Blocked...)
									c.Violation(Violation{
										Sig:  fmt.Sprintf("C09|%s|call=%s|blocked=%s", kind, a.Name, normBlocked(blocked)),
										What: fmt.Sprintf("with this schedule the calls wait for each other forever: %v\n  program: %s", blocked, jsonOf(prog)),
										Cfg:  cfg, More: map[string]interface{}{"program": prog, "schedule": choices},
									})
								}
								return false
							}
							for _, p := range x.Panics {
								c.Violation(Violation{Sig: "C09|panic|" + a.Name + "|" + normPanic(p.Value+" @ "+sodFrame(p.Stack)), What: "panic in " + p.Name + ": " + p.Value + "\n" + trimStack(p.Stack), Cfg: cfg, More: map[string]interface{}{"program": prog, "schedule": choices}})
								return false
							}
							return true
						})
						c.Count("programs", 1)
						c.Count("paths_replayed", st.Execs)
						if st.Truncated {
							c.Count("programs_truncated", 1)
							c.capHit = true
						}
						c.Max("max_points", st.MaxPoints)
						c.Distinct("states", jsonOf(prog))
						if st.Execs > 1 {
							c.Distinct("distinct_nontrivial", jsonOf(prog))
						}
						if item < 40 {
							c.Sample(map[string]interface{}{"program": prog, "schedules_explored": st.Execs, "bound": bound})
						}
					}
				}
			}
		}
	}
	_ = sitesSeen
	c.Max("deviation_bound_completed", bound)
	c.Meta(map[string]interface{}{
		"rule":    "programs: thread A = every exported entry point in turn (39 calls selecting indexed / unindexed / refined searches, terminals, batch and flush paths), thread B = a write-lock taker (Commit, InsertOrUpdate) or a read-lock taker, optional thread C, plus the background flusher in async configurations, from a warm handle and from a freshly opened one (nothing loaded); for each program every schedule with at most the stated number of deviations (pre-emptions at lock acquisitions, context checks and sleeps; early clock ticks) is executed on the real code under the cooperative scheduler with the writer-preferring RWMutex model; oracle: no reachable state with unfinished threads and none enabled, no tick-horizon overrun, no panic. Non-trivial = programs with more than one schedule.",
		"configs": cfgs, "entry_points": len(entryPoints()), "partners": len(partners),
	})
}

func normBlocked(b []string) string {
	var out []string
	for _, s := range b {
		if i := strings.Index(s, ":"); i >= 0 {
			s = strings.TrimRight(s[:i], "0123456789") + s[i:]
		}
		out = append(out, s)
	}
	return strings.Join(out, ",")
}
