package main

import (
	"errors"
	"fmt"
	"io/fs"
	"math"
	"sort"
	"strings"

	"github.com/0xrawsec/sod"
	"github.com/0xrawsec/sod/zzverif/vfs"
	"github.com/0xrawsec/sod/zzverif/vrt"
)

// outcome classes of API calls
const (
	eOK        = "ok"
	eUnique    = "unique"
	eInvalid   = "invalid"
	eWrongType = "wrongtype"
	eNotFound  = "notfound"
	eNoObject  = "noobject"
	eCorrupted = "corrupted"
	eStructure = "structure"
	eFieldDesc = "fielddesc"
	eExtension = "extension"
	eUnknownF  = "unknownfield"
	eUnknownOp = "unknownop"
	eCasting   = "casting"
	eOther     = "other"
)

func classify(err error) string {
	switch {
	case err == nil:
		return eOK
	case sod.IsUnique(err):
		return eUnique
	case errors.Is(err, sod.ErrInvalidObject):
		return eInvalid
	case errors.Is(err, sod.ErrWrongObjectType):
		return eWrongType
	case sod.IsNoObjectFound(err):
		return eNoObject
	case errors.Is(err, fs.ErrNotExist):
		return eNotFound
	case sod.IsIndexCorrupted(err):
		return eCorrupted
	case errors.Is(err, sod.ErrStructureChanged):
		return eStructure
	case errors.Is(err, sod.ErrFieldDescModif):
		return eFieldDesc
	case errors.Is(err, sod.ErrExtensionMismatch):
		return eExtension
	case errors.Is(err, sod.ErrUnkownField):
		return eUnknownF
	case errors.Is(err, sod.ErrUnkownSearchOperator):
		return eUnknownOp
	case errors.Is(err, sod.ErrCasting):
		return eCasting
	}
	return eOther
}

func isNotFoundClass(c string) bool { return c == eNotFound || c == eNoObject }

// Op is one letter of an alphabet (argument classes, not Go values).
type Op struct {
	Op    string `json:"op"`
	V     int    `json:"v,omitempty"`
	K     int    `json:"k,omitempty"`
	Slot  int    `json:"slot,omitempty"`
	Field string `json:"field,omitempty"`
	Cmp   string `json:"cmp,omitempty"`
	Probe int    `json:"probe,omitempty"`
	Shape int    `json:"shape,omitempty"`
	CSize int    `json:"csize,omitempty"`
	Close bool   `json:"close,omitempty"`
	Batch []Mem  `json:"batch,omitempty"`
	Alt   int    `json:"alt,omitempty"`
}

// Mem is one member of a batch.
type Mem struct {
	Kind string `json:"kind"` // fresh | slot | same (same pointer as member Ref) | dup (new object with uuid of member Ref) | other | invalid
	V    int    `json:"v,omitempty"`
	K    int    `json:"k,omitempty"`
	Slot int    `json:"slot,omitempty"`
	Ref  int    `json:"ref,omitempty"`
}

func (o Op) String() string { return jsonOf(o) }

// Violation found by an oracle.
type Violation struct {
	Sig  string      `json:"sig"`
	What string      `json:"what"`
	Cfg  Cfg         `json:"cfg"`
	Path []Op        `json:"path,omitempty"`
	More interface{} `json:"more,omitempty"`
}

// World is one database handle over one in-memory file system, with the
// reference model run beside it.
type World struct {
	Cfg   Cfg
	FS    *vfs.FS
	DB    *sod.DB
	Root  string
	M     *Model
	Slots []string        // uuid of slot i (order of first acceptance)
	Ever  map[string]bool // every uuid ever issued to an accepted object
	Dead  map[string]bool // uuids deleted and not re-stored
	Viol  []Violation
	Path  []Op
	prop  string
	// Tolerant: an unexpected error of the call is recorded in LastErr instead of
	// being reported (fault injection); the model is then left unchanged.
	Tolerant bool
	LastErr  error
	// LastClass: outcome class of the last batch call
	LastClass string
	// pending (async) bookkeeping is not needed by the model: reads see writes at once
	closed bool
	// Two: the database holds a second collection (type Wide2) created from the SAME Schema
	// value as the first one; M2 is its reference (uuid -> object), Order2 its live objects
	// oldest first, Dead2 the deleted ones
	Two     bool
	M2      map[string]*Wide2
	Order2  []string
	Dead2   map[string]bool
	serial2 int
}

// worldTwo makes the worlds built from now on hold a second collection (set by drivers).
var worldTwo bool

const dbRoot = "/db"

// NeverUUID is a well-formed id that no execution ever issues.
const NeverUUID = "00000000-0000-4000-8000-000000000000"

// NewWorld opens a fresh database under cfg on a fresh vfs and creates the schema.
func NewWorld(cfg Cfg, prop string) *World {
	w := &World{Cfg: cfg, FS: vfs.New(), Root: dbRoot, M: NewModel(), Ever: map[string]bool{}, Dead: map[string]bool{}, prop: prop}
	w.M.UniqueP = cfg.Index == 3
	w.M.UniqueV = cfg.UniqueV()
	vfs.Cur = w.FS
	w.FS.LogOn = true
	setGlobals(cfg)
	if worldTwo && cfg.Index == 0 {
		w.Two, w.M2, w.Dead2 = true, map[string]*Wide2{}, map[string]bool{}
	}
	w.open()
	return w
}

func (w *World) open() {
	vfs.Cur = w.FS
	w.DB = sod.Open(w.Root)
	w.closed = false
	sch := w.Cfg.Schema(&Rec{})
	if err := w.DB.Create(&Rec{}, sch); err != nil {
		w.fail("create", fmt.Sprintf("Create failed on a healthy database: %v", err))
	}
	if w.Two {
		// the very same Schema value, as an application with one schema for all its types does
		if err := w.DB.Create(&Wide2{}, sch); err != nil {
			w.fail("create2", fmt.Sprintf("Create of a second collection failed on a healthy database: %v", err))
		}
	}
}

func (w *World) fail(sig, what string) {
	w.Viol = append(w.Viol, Violation{Sig: w.prop + "|" + sig, What: what, Cfg: w.Cfg, Path: append([]Op{}, w.Path...)})
}

// recFor builds the Go object passed to the API for (slot or new, v, k).
func (w *World) recFor(slot, v, k int) *Rec {
	r := NewRec(v, k)
	if slot >= 0 {
		r.Initialize(w.Slots[slot])
	}
	return r
}

func (w *World) accept(uuid string, r *Rec, isNew bool) {
	if isNew {
		if uuid == "" {
			w.fail("uuid-empty", "an accepted new object has an empty UUID")
			return
		}
		if w.Ever[uuid] {
			w.fail("uuid-reused", "a new object received a UUID that was issued before: "+uuid)
		}
		w.Slots = append(w.Slots, uuid)
		w.Ever[uuid] = true
	}
	delete(w.Dead, uuid)
	w.M.store(uuid, r)
}

func (w *World) drop(uuid string) {
	if _, ok := w.M.Objs[uuid]; ok {
		delete(w.M.Objs, uuid)
		w.Dead[uuid] = true
	}
}

// Applicable tells whether op makes sense in the current world (slot exists...).
func (w *World) Applicable(op Op) bool {
	switch op.Op {
	case "ins2", "delall2":
		return w.Two
	case "dup2", "upd2", "del2":
		return w.Two && len(w.Order2) > 0
	case "flush", "flushc":
		// Flush writes the object it is given: only the current version of a stored object is
		// passed (flushing anything else is outside every statement)
		if op.Slot >= len(w.Slots) {
			return false
		}
		_, stored := w.M.Objs[w.Slots[op.Slot]]
		return stored
	case "upd", "del", "get", "updnan":
		return op.Slot < len(w.Slots)
	case "abandon":
		return w.Cfg.Async == 0
	case "many", "bulk":
		for _, m := range op.Batch {
			if m.Kind == "slot" && m.Slot >= len(w.Slots) {
				return false
			}
		}
	}
	return true
}

// Apply executes op on the implementation and on the model and compares the
// returned values. Divergences are appended to w.Viol.
func (w *World) Apply(op Op) {
	w.Path = append(w.Path, op)
	w.FS.CallNo = len(w.Path)
	vrt.Note(uint64(len(w.Path)))
	switch op.Op {
	case "ins", "upd":
		slot := -1
		if op.Op == "upd" {
			slot = op.Slot
		}
		r := w.recFor(slot, op.V, op.K)
		uuid := r.UUID()
		want := w.M.expectSingle(uuid, r)
		err := w.DB.InsertOrUpdate(r)
		got := classify(err)
		if w.Tolerant && err != nil && got != want {
			w.LastErr = err
			return
		}
		if got != want {
			w.fail("single-class|"+want+"->"+got, fmt.Sprintf("InsertOrUpdate: expected %s, got %s (%v)", want, got, err))
			return
		}
		if got == eOK {
			if slot >= 0 && r.UUID() != uuid {
				w.fail("uuid-changed", "an identified object changed UUID on update")
			}
			w.accept(r.UUID(), r, slot < 0)
		}
	case "fill":
		// V objects with synthetic unique keys (collections larger than the key tables allow)
		base := len(w.Ever)
		objs := make([]sod.Object, 0, op.V)
		recs := make([]*Rec, 0, op.V)
		for i := 0; i < op.V; i++ {
			r := NewRec(i%NV, 0)
			r.K = fmt.Sprintf("F%04d", base+i)
			r.N = int64(100000 + base + i)
			objs = append(objs, r)
			recs = append(recs, r)
		}
		if n, err := w.DB.InsertOrUpdateMany(objs...); err != nil || n != op.V {
			w.fail("fill-err", fmt.Sprintf("a fill of %d objects returned (%d, %v)", op.V, n, err))
			return
		}
		for _, r := range recs {
			w.accept(r.UUID(), r, true)
		}
	case "ins2":
		w.serial2++
		o := &Wide2{A: op.V, K: fmt.Sprintf("k%d", w.serial2)}
		if err := w.DB.InsertOrUpdate(o); err != nil {
			w.fail("ins2-err", fmt.Sprintf("insert into the second collection returned %v", err))
			return
		}
		w.M2[o.UUID()] = o
		w.Order2 = append(w.Order2, o.UUID())
	case "dup2":
		// a new object re-using the unique key of the oldest live object of the second collection
		w.serial2++
		o := &Wide2{A: op.V, K: w.M2[w.Order2[0]].K}
		if err := w.DB.InsertOrUpdate(o); !sod.IsUnique(err) {
			w.fail("dup2-accepted", fmt.Sprintf("a duplicate unique key in the second collection was answered with %v", err))
		}
	case "upd2":
		u := w.Order2[0]
		w.serial2++
		o := &Wide2{A: op.V, K: fmt.Sprintf("k%d", w.serial2)}
		o.Initialize(u)
		if err := w.DB.InsertOrUpdate(o); err != nil {
			w.fail("upd2-err", fmt.Sprintf("update in the second collection returned %v", err))
			return
		}
		w.M2[u] = o
		w.Order2 = append(w.Order2[1:], u)
	case "del2":
		u := w.Order2[0]
		o := &Wide2{}
		o.Initialize(u)
		if err := w.DB.Delete(o); err != nil {
			w.fail("del2-err", fmt.Sprintf("delete in the second collection returned %v", err))
			return
		}
		delete(w.M2, u)
		w.Dead2[u] = true
		w.Order2 = w.Order2[1:]
	case "delall2":
		if err := w.DB.DeleteAll(&Wide2{}); err != nil {
			w.fail("delall2-err", fmt.Sprintf("DeleteAll of the second collection returned %v", err))
			return
		}
		for u := range w.M2 {
			w.Dead2[u] = true
		}
		w.M2 = map[string]*Wide2{}
		w.Order2 = nil
	case "insnan", "updnan":
		// a valid, conflict-free object that cannot be serialised: refused, nothing changes
		slot := -1
		if op.Op == "updnan" {
			slot = op.Slot
		}
		r := w.recFor(slot, op.V, op.K)
		r.Q = math.NaN()
		err := w.DB.InsertOrUpdate(r)
		w.LastClass = classify(err)
		if err == nil {
			w.fail("unserialisable-accepted", "InsertOrUpdate of an object holding NaN (no JSON form) returned nil")
		}
	case "flush", "flushc":
		uuid := w.Slots[op.Slot]
		r := cloneRec(w.M.Objs[uuid])
		r.Initialize(uuid)
		var err error
		if op.Op == "flush" {
			err = w.DB.Flush(r)
		} else {
			err = w.DB.FlushAndCommit(r)
		}
		if err != nil {
			if w.Tolerant {
				w.LastErr = err
				return
			}
			w.fail("flush-err", fmt.Sprintf("%s of a stored object returned %v", op.Op, err))
		}
	case "del":
		uuid := w.Slots[op.Slot]
		r := &Rec{}
		r.Initialize(uuid)
		err := w.DB.Delete(r)
		if err != nil {
			if w.Tolerant {
				w.LastErr = err
				return
			}
			w.fail("delete-err", fmt.Sprintf("Delete returned %v", err))
			return
		}
		w.drop(uuid)
	case "delabsent":
		r := &Rec{}
		r.Initialize(NeverUUID)
		if err := w.DB.Delete(r); err != nil {
			w.fail("delete-absent-err", fmt.Sprintf("Delete of a never stored id returned %v", err))
		}
	case "delall":
		if err := w.DB.DeleteAll(&Rec{}); err != nil {
			if w.Tolerant {
				w.LastErr = err
				return
			}
			w.fail("deleteall-err", fmt.Sprintf("DeleteAll returned %v", err))
			return
		}
		for _, u := range w.M.UUIDs() {
			w.drop(u)
		}
	case "sdel":
		spec := specByPath(op.Field)
		probe := spec.probes()[op.Probe]
		s := w.DB.Search(&Rec{}, op.Field, op.Cmp, probe)
		if s.Err() != nil {
			if w.Tolerant {
				w.LastErr = s.Err()
				return
			}
			w.fail("sdel-search-err", fmt.Sprintf("Search(%s %s %v) failed: %v", op.Field, op.Cmp, probe, s.Err()))
			return
		}
		if op.Alt == 1 {
			// the same set, as the union with a search that matches nothing
			s = s.Or("S", "=", "\x00never-stored")
			if s.Err() != nil {
				w.fail("sdel-search-err", fmt.Sprintf("Search(%s %s %v).Or(S = absent) failed: %v", op.Field, op.Cmp, probe, s.Err()))
				return
			}
		}
		if err := s.Delete(); err != nil {
			if w.Tolerant {
				w.LastErr = err
				return
			}
			w.fail("sdel-err", fmt.Sprintf("Search.Delete returned %v", err))
			return
		}
		for u := range w.M.search(spec, op.Cmp, probe) {
			w.drop(u)
		}
	case "many", "bulk":
		w.applyBatch(op)
	case "reopen":
		if err := w.DB.Close(); err != nil {
			if w.Tolerant {
				w.LastErr = err
				return
			}
			w.fail("close-err", fmt.Sprintf("Close returned %v", err))
		}
		w.open()
	case "settings":
		// Create with a compatible schema that switches cache / asynchronous writes on the live handle
		w.Cfg.Cache = op.Alt%2 == 1
		w.Cfg.Async = []int{0, 1, 2, 0}[op.Alt/2]
		sc := w.Cfg.Schema(&Rec{})
		if op.Alt/2 == 3 {
			// asynchronous writes switched off with a non-nil, disabled settings value
			sc.AsyncWrites = &sod.Async{Enable: false, Threshold: 2, Timeout: 2 * step}
		}
		if err := w.DB.Create(&Rec{}, sc); err != nil {
			w.fail("settings-create-err", fmt.Sprintf("Create with new cache/async settings returned %v", err))
		}
	case "createflip":
		// Create with a compatible schema whose compression flag differs from the stored one:
		// the stored layout wins, data is preserved
		sc := w.Cfg.Schema(&Rec{})
		sc.Compress = !sc.Compress
		if err := w.DB.Create(&Rec{}, sc); err != nil {
			w.fail("createflip-err", fmt.Sprintf("Create with a compatible schema (other compression flag) returned %v", err))
		}
	case "reopennc":
		// Close, then a new handle that does NOT call Create: the collection is loaded lazily by the next call
		if err := w.DB.Close(); err != nil {
			w.fail("close-err", fmt.Sprintf("Close returned %v", err))
		}
		vfs.Cur = w.FS
		w.DB = sod.Open(w.Root)
	case "repair":
		if err := w.DB.Repair(&Rec{}); err != nil {
			w.fail("repair-err", fmt.Sprintf("Repair on a healthy database returned %v", err))
		}
	case "abandon":
		// synchronous mode: every mutating call commits, the handle is simply dropped
		w.open()
	case "tick":
		vrt.Tick(1)
	case "flushall":
		if err := w.DB.FlushAll(&Rec{}); err != nil {
			w.fail("flushall-err", fmt.Sprintf("FlushAll returned %v", err))
		}
	case "flushallc":
		if err := w.DB.FlushAllAndCommit(&Rec{}); err != nil {
			if w.Tolerant {
				w.LastErr = err
				return
			}
			w.fail("flushallc-err", fmt.Sprintf("FlushAllAndCommit returned %v", err))
		}
	case "commit":
		if err := w.DB.Commit(&Rec{}); err != nil {
			w.fail("commit-err", fmt.Sprintf("Commit returned %v", err))
		}
	case "getabsent":
		w.checkAbsent(NeverUUID, "never-stored")
	case "get":
		uuid := w.Slots[op.Slot]
		if _, ok := w.M.Objs[uuid]; ok {
			w.checkPresent(uuid)
		} else {
			w.checkAbsent(uuid, "deleted")
		}
	case "all":
		w.checkAll()
	case "create":
		// re-create with the same (compatible) schema: idempotent
		if err := w.DB.Create(&Rec{}, w.Cfg.Schema(&Rec{})); err != nil {
			w.fail("recreate-err", fmt.Sprintf("Create with the same schema returned %v", err))
		}
	default:
		panic("unknown op " + op.Op)
	}
}

// build the Go objects of a batch
func (w *World) buildBatch(ms []Mem) ([]sod.Object, []*Rec) {
	objs := make([]sod.Object, 0, len(ms))
	recs := make([]*Rec, 0, len(ms))
	for _, m := range ms {
		switch m.Kind {
		case "fresh":
			r := NewRec(m.V, m.K)
			objs = append(objs, r)
			recs = append(recs, r)
		case "slot":
			r := w.recFor(m.Slot, m.V, m.K)
			objs = append(objs, r)
			recs = append(recs, r)
		case "same":
			objs = append(objs, objs[m.Ref])
			recs = append(recs, recs[m.Ref])
		case "invalid":
			r := NewRec(m.V, m.K)
			r.P = InvalidP
			objs = append(objs, r)
			recs = append(recs, r)
		case "nan":
			// valid, conflict-free by itself, but impossible to serialise
			r := NewRec(m.V, m.K)
			r.Q = math.NaN()
			objs = append(objs, r)
			recs = append(recs, r)
		case "other":
			objs = append(objs, &Other{X: m.V})
			recs = append(recs, nil)
		default:
			panic("member kind " + m.Kind)
		}
	}
	return objs, recs
}

// expectMany: the model's verdict for one atomic batch on the current state.
// Returns the class and, if accepted, applies nothing yet.
func (w *World) expectMany(objs []sod.Object, recs []*Rec) string {
	if len(objs) == 0 {
		return eOK
	}
	if recs[0] == nil {
		// first member decides the collection: a batch of Other on an uncreated collection
		return "othercoll"
	}
	// pairwise within the batch: identity = pointer, or equal non-empty uuid
	type ent struct {
		r    *Rec
		uuid string
	}
	var seen []ent
	for i, r := range recs {
		if r == nil {
			return eWrongType
		}
		unser := math.IsNaN(r.Q) || math.IsInf(r.Q, 0)
		src := r
		if unser {
			tmp := *r
			tmp.Q = 0
			src = &tmp
		}
		c := cloneRec(src)
		canon(c)
		if c.Validate() != nil {
			return eInvalid
		}
		if unser {
			return eOther // cannot be serialised
		}
		// within-batch conflicts (against the latest version of every distinct member)
		for _, e := range seen {
			same := e.r == r || (r.UUID() != "" && e.uuid == r.UUID())
			if same {
				continue
			}
			ec := cloneRec(e.r)
			canon(ec)
			if w.M.clash(ec, c) {
				return eUnique
			}
		}
		if w.M.conflict(r.UUID(), c) {
			return eUnique
		}
		// later version of the same member replaces the earlier one
		replaced := false
		for j := range seen {
			if seen[j].r == r || (r.UUID() != "" && seen[j].uuid == r.UUID()) {
				seen[j] = ent{r, r.UUID()}
				replaced = true
			}
		}
		if !replaced {
			seen = append(seen, ent{r, r.UUID()})
		}
		_ = i
	}
	return eOK
}

func (w *World) applyBatch(op Op) {
	objs, recs := w.buildBatch(op.Batch)
	pre := make([]string, len(recs))
	for i, r := range recs {
		if r != nil {
			pre[i] = r.UUID()
		}
	}
	if op.Op == "many" {
		want := w.expectMany(objs, recs)
		n, err := w.DB.InsertOrUpdateMany(objs...)
		got := classify(err)
		w.LastClass = got
		if w.Tolerant && err != nil && got != want {
			w.LastErr = err
			return
		}
		if want == "othercoll" {
			// batch addressed to a collection that was never created: must fail, nothing stored
			if err == nil {
				w.fail("many-othercoll", "InsertOrUpdateMany on an unknown collection succeeded")
			}
			return
		}
		if want == eWrongType && err != nil {
			// the statement does not say which error reports a foreign object
			got = want
		}
		if got != want {
			w.fail("many-class|"+want+"->"+got, fmt.Sprintf("InsertOrUpdateMany%s: expected %s, got %s (%v)", jsonOf(op.Batch), want, got, err))
			return
		}
		if want == eOK {
			if n != len(objs) {
				w.fail("many-count", fmt.Sprintf("InsertOrUpdateMany accepted %d objects but reported n=%d", len(objs), n))
			}
			w.acceptBatch(recs, pre, map[*Rec]bool{})
		} else if n != 0 {
			w.fail("many-count-fail", fmt.Sprintf("InsertOrUpdateMany failed (%s) but reported n=%d", got, n))
		}
		return
	}
	// bulk: chunks of csize in arrival order, stop at first failing chunk
	ch := make(chan sod.Object, len(objs))
	for _, o := range objs {
		ch <- o
	}
	close(ch)
	var snapM *Model
	var snapSlots []string
	snapEver := map[string]bool{}
	snapViol := len(w.Viol)
	if w.Tolerant {
		snapM = w.M.Clone()
		snapSlots = append([]string{}, w.Slots...)
		for u := range w.Ever {
			snapEver[u] = true
		}
	}
	n, err := w.DB.InsertOrUpdateBulk(ch, op.CSize)
	// model: fold many over chunks
	wantN := 0
	wantClass := eOK
	done := map[*Rec]bool{}
	cs := op.CSize
	if cs <= 0 {
		cs = len(objs) + 1 // a non-positive chunk size never fills a chunk: everything is one final chunk
	}
	for i := 0; i < len(objs) && wantClass == eOK; i += cs {
		j := i + cs
		if j > len(objs) {
			j = len(objs)
		}
		c := w.expectMany(objs[i:j], recs[i:j])
		if c == "othercoll" {
			c = eOther
		}
		if c != eOK {
			wantClass = c
			break
		}
		w.acceptBatch(recs[i:j], pre[i:j], done)
		wantN += j - i
	}
	got := classify(err)
	if w.Tolerant && err != nil && got != wantClass {
		// injected storage fault: the chunks stored before the failure count (n of them)
		w.LastErr = err
		w.M, w.Slots, w.Ever = snapM, snapSlots, snapEver
		w.Viol = w.Viol[:snapViol]
		if n > 0 && n <= len(recs) {
			w.acceptBatch(recs[:n], pre[:n], map[*Rec]bool{})
		}
		return
	}
	if wantClass == eOther {
		if err == nil {
			w.fail("bulk-othercoll", "InsertOrUpdateBulk with a chunk for an unknown collection succeeded")
		}
	} else if wantClass == eWrongType && err != nil {
	} else if got != wantClass {
		w.fail("bulk-class|"+wantClass+"->"+got, fmt.Sprintf("InsertOrUpdateBulk%s csize=%d: expected %s, got %s (%v)", jsonOf(op.Batch), op.CSize, wantClass, got, err))
		return
	}
	if n != wantN {
		w.fail("bulk-count", fmt.Sprintf("InsertOrUpdateBulk%s csize=%d: expected n=%d, got n=%d (err=%v)", jsonOf(op.Batch), op.CSize, wantN, n, err))
	}
}

func (w *World) acceptBatch(recs []*Rec, pre []string, done map[*Rec]bool) {
	for i, r := range recs {
		isNew := pre[i] == "" && !done[r]
		done[r] = true
		w.accept(r.UUID(), r, isNew)
	}
}

// ---- read checks -------------------------------------------------------------------------

func (w *World) checkPresent(uuid string) {
	want := jsonOf(w.M.Objs[uuid])
	r := &Rec{}
	r.Initialize(uuid)
	o, err := w.DB.Get(r)
	if err != nil {
		w.fail("get-present-err", fmt.Sprintf("Get of a stored object failed: %v", err))
	} else if got := jsonOf(o); got != want || o.UUID() != uuid {
		w.fail("get-present-value", fmt.Sprintf("Get returned %s (uuid %s), expected %s", got, o.UUID(), want))
	}
	o, err = w.DB.GetByUUID(&Rec{}, uuid)
	if err != nil {
		w.fail("getbyuuid-present-err", fmt.Sprintf("GetByUUID of a stored object failed: %v", err))
	} else if got := jsonOf(o); got != want || o.UUID() != uuid {
		w.fail("getbyuuid-present-value", fmt.Sprintf("GetByUUID returned %s, expected %s", got, want))
	}
	r2 := &Rec{}
	r2.Initialize(uuid)
	ok, err := w.DB.Exist(r2)
	if err != nil || !ok {
		w.fail("exist-present", fmt.Sprintf("Exist of a stored object = (%v, %v)", ok, err))
	}
}

func (w *World) checkAbsent(uuid, kind string) {
	for attempt := 1; attempt <= 2; attempt++ {
		r := &Rec{}
		r.Initialize(uuid)
		o, err := w.DB.Get(r)
		if err == nil {
			w.fail(fmt.Sprintf("get-absent-ok|%s|attempt%d", kind, attempt), fmt.Sprintf("Get of a %s id succeeded on attempt %d and returned %s", kind, attempt, jsonOf(o)))
		} else if c := classify(err); !isNotFoundClass(c) {
			w.fail(fmt.Sprintf("get-absent-class|%s|%s", kind, c), fmt.Sprintf("Get of a %s id failed with a non not-found error: %v", kind, err))
		}
		o, err = w.DB.GetByUUID(&Rec{}, uuid)
		if err == nil {
			w.fail(fmt.Sprintf("getbyuuid-absent-ok|%s|attempt%d", kind, attempt), fmt.Sprintf("GetByUUID of a %s id succeeded on attempt %d and returned %s", kind, attempt, jsonOf(o)))
		} else if c := classify(err); !isNotFoundClass(c) {
			w.fail(fmt.Sprintf("getbyuuid-absent-class|%s|%s", kind, c), fmt.Sprintf("GetByUUID of a %s id failed with a non not-found error: %v", kind, err))
		}
		r2 := &Rec{}
		r2.Initialize(uuid)
		ok, err := w.DB.Exist(r2)
		if err != nil || ok {
			w.fail("exist-absent|"+kind, fmt.Sprintf("Exist of a %s id = (%v, %v)", kind, ok, err))
		}
	}
}

func (w *World) checkAll() {
	want := map[string]string{}
	for u, r := range w.M.Objs {
		want[u] = jsonOf(r)
	}
	n, err := w.DB.Count(&Rec{})
	if err != nil || n != len(want) {
		w.fail("count", fmt.Sprintf("Count = (%d, %v), expected %d", n, err, len(want)))
	}
	objs, err := w.DB.All(&Rec{})
	if err != nil {
		w.fail("all-err", fmt.Sprintf("All failed: %v", err))
	} else {
		w.compareSet("all", objs, want)
	}
	var recs []*Rec
	if err := w.DB.AssignAll(&Rec{}, &recs); err != nil {
		w.fail("assignall-err", fmt.Sprintf("AssignAll failed: %v", err))
	} else {
		objs = objs[:0]
		for _, r := range recs {
			objs = append(objs, r)
		}
		w.compareSet("assignall", objs, want)
	}
}

func (w *World) compareSet(what string, objs []sod.Object, want map[string]string) {
	got := map[string]string{}
	for _, o := range objs {
		if _, dup := got[o.UUID()]; dup {
			w.fail(what+"-dup", what+" returned the same object twice: "+o.UUID())
		}
		got[o.UUID()] = jsonOf(o)
	}
	if len(got) != len(want) {
		w.fail(what+"-size", fmt.Sprintf("%s returned %d objects, expected %d", what, len(got), len(want)))
		return
	}
	for u, j := range want {
		if g, ok := got[u]; !ok {
			w.fail(what+"-missing", fmt.Sprintf("%s misses stored object %s", what, u))
		} else if g != j {
			w.fail(what+"-value", fmt.Sprintf("%s returned %s for %s, expected %s", what, g, u, j))
		}
	}
}

// SweepBasic checks every non-search read path against the model.
func (w *World) SweepBasic() {
	w.checkAll()
	for _, u := range w.M.UUIDs() {
		w.checkPresent(u)
	}
	dead := setKeys(w.Dead)
	for _, u := range dead {
		w.checkAbsent(u, "deleted")
	}
	w.checkAbsent(NeverUUID, "never-stored")
	if w.Two {
		w.sweepSecond()
	}
}

// sweepSecond compares the second collection with its reference.
func (w *World) sweepSecond() {
	if n, err := w.DB.Count(&Wide2{}); err != nil || n != len(w.M2) {
		w.fail("second|count", fmt.Sprintf("second collection: Count = (%d, %v), expected %d", n, err, len(w.M2)))
		return
	}
	all, err := w.DB.All(&Wide2{})
	if err != nil || len(all) != len(w.M2) {
		w.fail("second|all", fmt.Sprintf("second collection: All returns %d objects (%v), expected %d", len(all), err, len(w.M2)))
		return
	}
	for _, o := range all {
		g := o.(*Wide2)
		m, ok := w.M2[g.UUID()]
		if !ok || m.A != g.A || m.K != g.K {
			w.fail("second|all-value", "second collection: All returns an object that is not the accepted version")
			return
		}
	}
	for u, m := range w.M2 {
		g, err := w.DB.GetByUUID(&Wide2{}, u)
		if err != nil || g.(*Wide2).A != m.A || g.(*Wide2).K != m.K {
			w.fail("second|get", fmt.Sprintf("second collection: Get of a stored object returns (%v, %v)", g, err))
			return
		}
		if s := w.DB.Search(&Wide2{}, "K", "=", m.K); s.Err() != nil || s.Len() != 1 {
			w.fail("second|search", fmt.Sprintf("second collection: Search(K = own key) finds %d (%v)", s.Len(), s.Err()))
			return
		}
	}
	for u := range w.Dead2 {
		if _, err := w.DB.GetByUUID(&Wide2{}, u); err == nil {
			w.fail("second|deleted-found", "second collection: a deleted object is found")
			return
		}
	}
	// the ids of one collection mean nothing in the other
	for u := range w.M2 {
		if _, err := w.DB.GetByUUID(&Rec{}, u); err == nil {
			w.fail("second|crosstalk", "an object of the second collection is found through the first one")
			return
		}
	}
}

// DirCheck: after a commit point the collection directory holds exactly one file per model object.
func (w *World) DirCheck() {
	dir := w.collDir()
	want := map[string]bool{}
	for u := range w.M.Objs {
		want[w.fileName(u)] = true
	}
	for _, p := range w.FS.Paths(dir) {
		base := p[len(dir)+1:]
		if base == "schema.json" {
			continue
		}
		if !want[base] {
			w.fail("dir-extra", "unexpected entry in the collection directory: "+w.rename(base))
		}
		delete(want, base)
	}
	for b := range want {
		w.fail("dir-missing", "no file for stored object: "+w.rename(b))
	}
}

// collDir discovers the collection directory of Rec: the directory below the
// root whose name, with case and underscores removed, is "main.rec".
func (w *World) collDir() string {
	for _, p := range w.FS.Paths(w.Root) {
		if !strings.HasSuffix(p, "/") {
			continue
		}
		base := strings.TrimSuffix(p[len(w.Root)+1:], "/")
		if strings.Contains(base, "/") {
			continue
		}
		if strings.ToLower(strings.ReplaceAll(base, "_", "")) == "main.rec" {
			return w.Root + "/" + base
		}
	}
	return w.Root + "/main.Rec"
}

func (w *World) fileName(uuid string) string {
	ext := w.Cfg.BaseExt()
	if w.Cfg.Compress {
		ext += ".gz"
	}
	return uuid + ext
}

// rename replaces uuids by slot names (s0, s1, ...) in s.
func (w *World) rename(s string) string {
	for i, u := range w.Slots {
		s = strings.ReplaceAll(s, u, fmt.Sprintf("<s%d>", i))
	}
	return s
}

// SearchSweep compares every (field, operator, probe) query with the model.
func (w *World) SearchSweep(collect bool) (queries int) {
	for i := range fieldSpecs {
		spec := &fieldSpecs[i]
		for _, probe := range spec.probes() {
			for _, op := range operators {
				if op == "~=" {
					continue
				}
				queries++
				w.checkQuery(spec, op, probe, collect)
			}
		}
		if spec.Kind == kString {
			for _, pat := range []string{"^a", "A|b", "^$", ".", "[xy]"} {
				queries++
				w.checkQuery(spec, "~=", pat, collect)
			}
		}
	}
	return
}

func (w *World) checkQuery(spec *FieldSpec, op string, probe interface{}, collect bool) {
	want := w.M.search(spec, op, probe)
	s := w.DB.Search(&Rec{}, spec.Path, op, probe)
	q := fmt.Sprintf("%s %s", spec.Path, op)
	if err := s.Err(); err != nil {
		w.fail("search-err|"+q, fmt.Sprintf("Search(%s %s %v) failed: %v", spec.Path, op, probe, err))
		return
	}
	if s.Len() != len(want) {
		w.fail("search-len|"+q, fmt.Sprintf("Search(%s %s %#v).Len() = %d, expected %d", spec.Path, op, probe, s.Len(), len(want)))
		return
	}
	if !collect {
		return
	}
	objs, err := s.Collect()
	if err != nil {
		w.fail("search-collect-err|"+q, fmt.Sprintf("Search(%s %s %v).Collect failed: %v", spec.Path, op, probe, err))
		return
	}
	got := map[string]bool{}
	for _, o := range objs {
		if got[o.UUID()] {
			w.fail("search-dup|"+q, fmt.Sprintf("Search(%s %s %v) returned %s twice", spec.Path, op, probe, w.rename(o.UUID())))
		}
		got[o.UUID()] = true
		if m, ok := w.M.Objs[o.UUID()]; ok && jsonOf(o) != jsonOf(m) {
			w.fail("search-value|"+q, fmt.Sprintf("Search(%s %s %v) returned %s, expected %s", spec.Path, op, probe, jsonOf(o), jsonOf(m)))
		}
	}
	if !setEq(got, want) {
		w.fail("search-set|"+q, fmt.Sprintf("Search(%s %s %#v) = %v, expected %v", spec.Path, op, probe, w.rename(fmt.Sprint(setKeys(got))), w.rename(fmt.Sprint(setKeys(want)))))
	}
}

// Control runs the live integrity check.
func (w *World) Control() error { return w.DB.Control() }

func sortedViol(vs []Violation) []Violation {
	sort.SliceStable(vs, func(i, j int) bool { return vs[i].Sig < vs[j].Sig })
	return vs
}

// setGlobals sets the package-level switches of sod and of the shim for cfg. They
// are only written when they change: a leftover thread of the previous execution
// may still read them while it is being unwound.
func setGlobals(cfg Cfg) {
	if sod.LowercaseNames != cfg.Lower {
		sod.LowercaseNames = cfg.Lower
	}
	if vrt.MapReverse != cfg.MapRev {
		vrt.MapReverse = cfg.MapRev
	}
}
