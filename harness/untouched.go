package main

import (
	"encoding/json"
	"fmt"
	"os"
	"path/filepath"

	"github.com/0xrawsec/sod"
	"github.com/0xrawsec/sod/zzverif/vfs"
	"github.com/0xrawsec/sod/zzverif/vrt"
)

// Shim versus the untouched package (DESIGN 2.4): the same histories are run
//  (1) by a harness linked against the UNREWRITTEN package sod, on a real
//      directory with the real os, sync, time and uuid packages ("untouched" phase),
//  (2) by the normal, shimmed build over the in-memory file system ("compare" phase),
// and the rendered observations (every return class and the final observation
// vector with ids renamed by slot) must be identical. A difference is an engine
// failure: the shims would be changing the behaviour of the package.

func untouchedCfgs() []Cfg {
	// synchronous configurations only: the real background writer runs on real time
	return []Cfg{{}, {Cache: true}, {Compress: true, Ext: ".v1.obj"}, {Cache: true, Compress: true, Lower: true, Index: 1}, {Index: 2}, {Index: 3, Ext: ".v1.obj"}}
}

func untouchedPaths() [][]Op {
	a := []Op{
		{Op: "ins", V: 0, K: 0}, {Op: "ins", V: 1, K: 2}, {Op: "ins", V: 3, K: 4}, {Op: "ins", V: 1, K: 1},
		{Op: "upd", Slot: 0, V: 3, K: 0}, {Op: "upd", Slot: 0, V: 0, K: 2}, {Op: "del", Slot: 0}, {Op: "delall"},
		{Op: "sdel", Field: "A", Cmp: ">=", Probe: 2}, {Op: "sdel", Field: "P", Cmp: "=", Probe: 1},
		{Op: "many", Batch: []Mem{{Kind: "fresh", V: 2, K: 0}, {Kind: "fresh", V: 3, K: 2}}},
		{Op: "many", Batch: []Mem{{Kind: "fresh", V: 2, K: 4}, {Kind: "invalid", V: 3, K: 2}}},
		{Op: "bulk", CSize: 1, Batch: []Mem{{Kind: "fresh", V: 2, K: 4}, {Kind: "fresh", V: 3, K: 4}}},
		{Op: "reopen"}, {Op: "getabsent"},
	}
	depth := 2
	if untouchedDeep {
		depth = 3
	}
	return append([][]Op{{}}, enumPaths(a, depth)...)
}

// untouchedDeep: thorough tier of the self-test (depth 3)
var untouchedDeep bool

// historyTrace runs path under cfg in the current build and renders what a user observes.
// real: run on a real directory (untouched phase); otherwise on the in-memory file system.
func historyTrace(cfg Cfg, path []Op, realDir string) (string, bool) {
	trace := ""
	applicable := true
	x := vrt.Run(vrt.Config{Sequential: true, MaxTicks: 10}, func() {
		w := &World{Cfg: cfg, FS: vfs.New(), Root: dbRoot, M: NewModel(), Ever: map[string]bool{}, Dead: map[string]bool{}, prop: "UNTOUCHED"}
		w.M.UniqueP = cfg.Index == 3
		w.M.UniqueV = cfg.UniqueV()
		if realDir != "" {
			w.Root = realDir
		}
		vfs.Cur = w.FS
		setGlobals(cfg)
		w.open()
		for _, op := range path {
			if !w.Applicable(op) {
				applicable = false
				return
			}
			w.Apply(op)
			trace += fmt.Sprintf("%s -> %d problems;", op.Op, len(w.Viol))
		}
		for _, v := range w.Viol {
			trace += "VIOL " + v.Sig + ";"
		}
		trace += "\n" + w.Observe(ObsOpt{Ordered: true, ErrProbes: true, Integrity: true, Trees: true}, func(p string) bool { return indexedUnder(cfg, p) })
		w.DB.Close()
	})
	for _, p := range x.Panics {
		trace += "PANIC " + firstLine(p.Value)
	}
	return trace, applicable
}

// runUntouched: the "untouched" phase. Writes digests to $VERIF_SCRATCH/untouched-<shard>.json.
func runUntouchedPhase(c *Ctx) {
	scratch := os.Getenv("VERIF_SCRATCH")
	out := map[string]uint64{}
	paths := untouchedPaths()
	item := 0
	for ci, cfg := range untouchedCfgs() {
		for pi, p := range paths {
			item++
			if item%c.NShards != c.Shard {
				continue
			}
			dir, err := os.MkdirTemp(scratch, "real-")
			if err != nil {
				panic(err)
			}
			tr, ok := historyTrace(cfg, p, filepath.Join(dir, "db"))
			os.RemoveAll(dir)
			if !ok {
				continue
			}
			out[fmt.Sprintf("%d|%d", ci, pi)] = hashStr(tr)
			c.Count("untouched_histories", 1)
		}
	}
	data, _ := json.Marshal(out)
	if err := os.WriteFile(filepath.Join(scratch, fmt.Sprintf("untouched-%d.json", c.Shard)), data, 0644); err != nil {
		panic(err)
	}
	c.Count("transitions", len(out))
	c.Distinct("states", fmt.Sprint("untouched", c.Shard))
	c.Sample(map[string]interface{}{"phase": "untouched", "histories": len(out)})
	_ = sod.DefaultExtension
}

// compareUntouched: the "compare" phase, part of SELFTEST in the shimmed build.
func compareUntouched(c *Ctx) {
	scratch := os.Getenv("VERIF_SCRATCH")
	data, err := os.ReadFile(filepath.Join(scratch, fmt.Sprintf("untouched-%d.json", c.Shard)))
	if err != nil {
		// the untouched phase did not run (harness started by hand): nothing to compare
		c.Count("untouched_comparison_skipped", 1)
		return
	}
	want := map[string]uint64{}
	if err := json.Unmarshal(data, &want); err != nil {
		panic(err)
	}
	paths := untouchedPaths()
	n := 0
	for ci, cfg := range untouchedCfgs() {
		for pi, p := range paths {
			key := fmt.Sprintf("%d|%d", ci, pi)
			w, ok := want[key]
			if !ok {
				continue
			}
			tr, applicable := historyTrace(cfg, p, "")
			if !applicable {
				panic(fmt.Sprintf("selftest: history %s applicable on the untouched package but not on the shimmed build", jsonOf(p)))
			}
			if hashStr(tr) != w {
				panic(fmt.Sprintf("selftest: the shimmed build and the untouched package (real directory, real sync/os/time/uuid) observe different results for cfg %s history %s\nshimmed build observed:\n%s", cfg, jsonOf(p), clipLong(tr)))
			}
			n++
		}
	}
	c.Count("histories_identical_on_untouched_package", n)
	c.Count("traces_validated_against_impl", n)
}

func clipLong(s string) string {
	if len(s) > 3000 {
		return s[:3000] + "..."
	}
	return s
}
