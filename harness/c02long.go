package main

import (
	"errors"
	"fmt"
	"sort"

	"github.com/0xrawsec/sod"
	"github.com/0xrawsec/sod/zzverif/vfs"
	"github.com/0xrawsec/sod/zzverif/vrt"
)

// Long indexes. The breadth-first searches keep at most 3-4 live objects, so a
// slip in the bisection / insertion-position / range code of a field index that
// needs a longer index (or a longer run of equal values) is out of their reach.
// This part enumerates EVERY insertion sequence over a three-value domain up to
// a length bound, checks every operator with every probe after each insertion
// (so every prefix is a checked state), then updates every object in place and
// finally deletes them one by one, checking again after each step.

// Wide is the collection type of this part: an indexed int, an indexed string
// and an unindexed int, all holding the same value class.
type Wide struct {
	sod.Item
	A int    `sod:"index"`
	B string `sod:"index"`
	U int
	// Seq is the rank of insertion (identifies the object in messages)
	Seq int
	// K is unique (used by the long-batch part of C07; the sweeps give every object its own)
	K string `sod:"unique"`
	// N is unique too (an integer): the sweeps give every object its own
	N int `sod:"unique"`
	// Body is an unindexed payload (large values)
	Body string `json:",omitempty"`
}

var errWideInvalid = errors.New("wide: invalid")

// Validate refuses the value -99.
func (w *Wide) Validate() error {
	if w.A == -99 {
		return errWideInvalid
	}
	return nil
}

var wideSerial int

func wideKey() string {
	wideSerial++
	return fmt.Sprintf("k%06d", wideSerial)
}

type wideModel struct {
	uuid string
	v    int
	seq  int
}

func wideB(v int) string { return fmt.Sprintf("v%d", v) }

// longIndexSweep runs sequence number idx (base-3 digits = values) of the given length.
func longIndexSweep(c *Ctx, cfg Cfg, length, idx int) []Violation {
	var viol []Violation
	digits := make([]int, length)
	x := idx
	for i := 0; i < length; i++ {
		digits[i] = x % 3
		x /= 3
	}
	seqName := fmt.Sprint(digits)
	fail := func(sig, what string) {
		if len(viol) < 3 {
			viol = append(viol, Violation{Sig: "C02|long|" + sig, What: what + "\n  insertion sequence of values " + seqName + " under " + cfg.String(), Cfg: cfg})
		}
	}
	ex := vrt.Run(vrt.Config{Sequential: true, MaxTicks: 50}, func() {
		setGlobals(cfg)
		fsys := vfs.New()
		vfs.Cur = fsys
		db := sod.Open(dbRoot)
		if err := db.Create(&Wide{}, cfg.Schema(&Wide{})); err != nil {
			fail("create", "Create failed: "+err.Error())
			return
		}
		var model []wideModel
		verify := func(after string) bool {
			probes := []int{-1, 0, 1, 2, 3}
			for _, field := range []string{"A", "B", "U"} {
				for _, op := range []string{"=", "!=", "<", "<=", ">", ">="} {
					for _, p := range probes {
						want := map[string]bool{}
						for _, m := range model {
							var ok bool
							if field == "B" {
								a, b := wideB(m.v), wideB(p)
								switch op {
								case "=":
									ok = a == b
								case "!=":
									ok = a != b
								case "<":
									ok = a < b
								case "<=":
									ok = a <= b
								case ">":
									ok = a > b
								case ">=":
									ok = a >= b
								}
							} else {
								switch op {
								case "=":
									ok = m.v == p
								case "!=":
									ok = m.v != p
								case "<":
									ok = m.v < p
								case "<=":
									ok = m.v <= p
								case ">":
									ok = m.v > p
								case ">=":
									ok = m.v >= p
								}
							}
							if ok {
								want[m.uuid] = true
							}
						}
						var probe interface{} = p
						if field == "B" {
							probe = wideB(p)
						}
						s := db.Search(&Wide{}, field, op, probe)
						if s.Err() != nil {
							fail("search-err|"+field+op, fmt.Sprintf("%s: Search(%s %s %v) failed: %v", after, field, op, probe, s.Err()))
							return false
						}
						if s.Len() != len(want) {
							fail("len|"+field+op, fmt.Sprintf("%s: Search(%s %s %v).Len() = %d, a scan of the %d stored objects finds %d", after, field, op, probe, s.Len(), len(model), len(want)))
							return false
						}
						objs, err := s.Collect()
						if err != nil {
							fail("collect-err|"+field+op, fmt.Sprintf("%s: Collect of Search(%s %s %v) failed: %v", after, field, op, probe, err))
							return false
						}
						seen := map[string]bool{}
						prev := 1 << 30
						for _, o := range objs {
							w := o.(*Wide)
							if seen[w.UUID()] {
								fail("duplicate|"+field+op, fmt.Sprintf("%s: Search(%s %s %v) returns an object twice", after, field, op, probe))
								return false
							}
							seen[w.UUID()] = true
							if !want[w.UUID()] {
								fail("foreign|"+field+op, fmt.Sprintf("%s: Search(%s %s %v) returns object #%d (value %d) which does not match", after, field, op, probe, w.Seq, w.A))
								return false
							}
							if field != "U" && op != "!=" {
								if w.A > prev {
									fail("order|"+field+op, fmt.Sprintf("%s: Search(%s %s %v) is not in non-increasing order of the field", after, field, op, probe))
									return false
								}
								prev = w.A
							}
						}
						if len(seen) != len(want) {
							fail("missing|"+field+op, fmt.Sprintf("%s: Search(%s %s %v) returns %d of the %d matching objects", after, field, op, probe, len(seen), len(want)))
							return false
						}
						// a refinement of the full collection and a union with nothing give the same set
						if field != "U" {
							if n := db.Search(&Wide{}, "U", ">=", -5).And(field, op, probe).Len(); n != len(want) {
								fail("and-len|"+field+op, fmt.Sprintf("%s: Search(all).And(%s %s %v).Len() = %d, expected %d", after, field, op, probe, n, len(want)))
								return false
							}
							if n := db.Search(&Wide{}, "A", "<", -5).Or(field, op, probe).Len(); n != len(want) {
								fail("or-len|"+field+op, fmt.Sprintf("%s: Search(none).Or(%s %s %v).Len() = %d, expected %d", after, field, op, probe, n, len(want)))
								return false
							}
						}
						c.Count("evaluations", 1)
					}
				}
			}
			// two unions built from the same base search do not disturb each other (nor the base)
			for v := 0; v < 3; v++ {
				cnt := [3]int{}
				for _, m := range model {
					cnt[m.v]++
				}
				v1, v2 := (v+1)%3, (v+2)%3
				base := db.Search(&Wide{}, "A", "=", v)
				u1 := base.Or("B", "=", wideB(v1))
				u2 := base.Or("A", "=", v2)
				if base.Err() != nil || u1.Err() != nil || u2.Err() != nil {
					fail("union-err", fmt.Sprintf("%s: unions of Search(A = %d) failed: %v %v %v", after, v, base.Err(), u1.Err(), u2.Err()))
					return false
				}
				check := func(s *sod.Search, what string, want map[int]bool, n int) bool {
					objs, err := s.Collect()
					if err != nil || len(objs) != n || s.Len() != n {
						fail("union-size", fmt.Sprintf("%s: %s holds %d objects (Len %d, err %v), expected %d", after, what, len(objs), s.Len(), err, n))
						return false
					}
					seen := map[string]bool{}
					for _, o := range objs {
						w := o.(*Wide)
						if !want[w.A] || seen[w.UUID()] {
							fail("union-member", fmt.Sprintf("%s: %s holds an object with A=%d (or one object twice)", after, what, w.A))
							return false
						}
						seen[w.UUID()] = true
					}
					return true
				}
				if !check(u1, fmt.Sprintf("Search(A = %d).Or(B = %s), built before a second union of the same search,", v, wideB(v1)), map[int]bool{v: true, v1: true}, cnt[v]+cnt[v1]) ||
					!check(u2, fmt.Sprintf("Search(A = %d).Or(A = %d), built after another union of the same search,", v, v2), map[int]bool{v: true, v2: true}, cnt[v]+cnt[v2]) ||
					!check(base, fmt.Sprintf("Search(A = %d) after two unions were built from it", v), map[int]bool{v: true}, cnt[v]) {
					return false
				}
				// and a refinement of the same base
				a1 := base.And("B", "=", wideB(v))
				if !check(a1, fmt.Sprintf("Search(A = %d).And(B = %s)", v, wideB(v)), map[int]bool{v: true}, cnt[v]) || !check(u1, "the first union, after the refinement was built,", map[int]bool{v: true, v1: true}, cnt[v]+cnt[v1]) {
					return false
				}
			}
			// the whole index, in order
			var idx []int
			if err := db.AssignIndex(&Wide{}, "A", &idx); err != nil {
				fail("assignindex-err", after+": AssignIndex failed: "+err.Error())
				return false
			}
			var wantIdx []int
			for _, m := range model {
				wantIdx = append(wantIdx, m.v)
			}
			sort.Sort(sort.Reverse(sort.IntSlice(wantIdx)))
			if fmt.Sprint(idx) != fmt.Sprint(wantIdx) && !(len(idx) == 0 && len(wantIdx) == 0) {
				fail("assignindex", fmt.Sprintf("%s: AssignIndex(A) = %v, expected %v", after, idx, wantIdx))
				return false
			}
			if n, err := db.Count(&Wide{}); err != nil || n != len(model) {
				fail("count", fmt.Sprintf("%s: Count = (%d, %v), expected %d", after, n, err, len(model)))
				return false
			}
			return true
		}
		for i, v := range digits {
			o := &Wide{A: v, B: wideB(v), U: v, Seq: i, K: wideKey(), N: wideSerial}
			if err := db.InsertOrUpdate(o); err != nil {
				fail("insert", fmt.Sprintf("insert #%d failed: %v", i, err))
				return
			}
			model = append(model, wideModel{o.UUID(), v, i})
			// every prefix is a state; the full sweep on the longer ones only (the short ones
			// are the business of the breadth-first part)
			if len(model) >= 4 && !verify(fmt.Sprintf("after %d insertions", i+1)) {
				return
			}
		}
		if cfg.Async != 0 {
			vrt.Tick(3)
		}
		// in-place updates, then deletions
		for i := range model {
			nv := (model[i].v + 1 + i%2) % 3
			o := &Wide{A: nv, B: wideB(nv), U: nv, Seq: model[i].seq, K: wideKey(), N: wideSerial}
			o.Initialize(model[i].uuid)
			if err := db.InsertOrUpdate(o); err != nil {
				fail("update", fmt.Sprintf("update of #%d failed: %v", i, err))
				return
			}
			model[i].v = nv
			if !verify(fmt.Sprintf("after the insertions and the update of objects #0..#%d", i)) {
				return
			}
		}
		if err := db.Control(); err != nil && cfg.Async == 0 {
			fail("control", "Control fails: "+err.Error())
			return
		}
		// reload: the index read back from schema.json answers the same
		if err := db.Close(); err != nil {
			fail("close", "Close failed: "+err.Error())
			return
		}
		db = sod.Open(dbRoot)
		if !verify("after the updates, Close and Open") {
			return
		}
		// deletions, always from the middle of what is left (in insertion order)
		for len(model) > 0 {
			k := len(model) / 2
			o := &Wide{}
			o.Initialize(model[k].uuid)
			if err := db.Delete(o); err != nil {
				fail("delete", fmt.Sprintf("delete failed: %v", err))
				return
			}
			model = append(model[:k], model[k+1:]...)
			if len(model) > 0 && !verify(fmt.Sprintf("after the updates, a reload and deletions down to %d objects", len(model))) {
				return
			}
		}
		if err := db.Control(); err != nil && cfg.Async == 0 {
			fail("control", "Control fails on the emptied collection: "+err.Error())
		}
	})
	for _, p := range ex.Panics {
		fail("panic|"+normPanic(p.Value+" @ "+sodFrame(p.Stack)), "panic: "+p.Value+"\n"+trimStack(p.Stack))
	}
	if ex.Deadlock || ex.Horizon {
		fail("stuck", "the sweep blocked")
	}
	return viol
}

func runC02Long(c *Ctx) {
	maxLen := 6
	cfgs := []Cfg{{}, {Cache: true, Index: 2}, {Async: 2}}
	if c.Tier == "thorough" {
		maxLen = 8
		cfgs = append(cfgs, Cfg{Compress: true, Lower: true})
	}
	item := 0
	for _, cfg := range cfgs {
		item++
		if item%c.NShards == c.Shard {
			for _, v := range unionSeries(c, cfg, 40) {
				c.Violation(v)
			}
			c.Distinct("states", "unionseries|"+cfg.String())
		}
	}
	for _, cfg := range cfgs {
		total := 1
		for i := 0; i < maxLen; i++ {
			total *= 3
		}
		for idx := 0; idx < total; idx++ {
			item++
			if item%c.NShards != c.Shard {
				continue
			}
			if c.Expired() {
				c.Count("depth_incomplete", 1)
				return
			}
			for _, v := range longIndexSweep(c, cfg, maxLen, idx) {
				c.Violation(v)
			}
			c.Count("transitions", 3*maxLen+1)
			c.Count("paths_replayed", 1)
			key := fmt.Sprintf("long|%s|%d", cfg.String(), idx)
			c.Distinct("states", key)
			c.Distinct("distinct_nontrivial", key)
		}
	}
}

// ---- C13 on long indexes: order, Reverse, Limit, One after every step of every
// insertion sequence (ties in runs of up to `length` equal values) ----------------

func longOrderSweep(c *Ctx, cfg Cfg, length, idx int) []Violation {
	var viol []Violation
	digits := make([]int, length)
	x := idx
	for i := 0; i < length; i++ {
		digits[i] = x % 3
		x /= 3
	}
	seqName := fmt.Sprint(digits)
	fail := func(sig, what string) {
		if len(viol) < 3 {
			viol = append(viol, Violation{Sig: "C13|long|" + sig, What: what + "\n  insertion sequence of values " + seqName + " under " + cfg.String(), Cfg: cfg})
		}
	}
	ex := vrt.Run(vrt.Config{Sequential: true, MaxTicks: 50}, func() {
		setGlobals(cfg)
		fsys := vfs.New()
		vfs.Cur = fsys
		db := sod.Open(dbRoot)
		if err := db.Create(&Wide{}, cfg.Schema(&Wide{})); err != nil {
			fail("create", "Create failed: "+err.Error())
			return
		}
		nobj := 0
		vals := map[string]int{} // uuid -> value of the live objects
		ids := func(objs []sod.Object) []string {
			out := make([]string, len(objs))
			for i, o := range objs {
				out[i] = o.UUID()
			}
			return out
		}
		verify := func(after string) bool {
			for _, field := range []string{"A", "B"} {
				for _, op := range []string{"=", "!=", "<", "<=", ">", ">="} {
					for _, p := range []int{0, 1, 2, 3} {
						var probe interface{} = p
						if field == "B" {
							probe = wideB(p)
						}
						mk := func(chain bool) *sod.Search {
							if chain {
								return db.Search(&Wide{}, "U", ">=", -5).And(field, op, probe)
							}
							return db.Search(&Wide{}, field, op, probe)
						}
						for _, chain := range []bool{false, true} {
							q := fmt.Sprintf("Search(%s %s %v)", field, op, probe)
							if chain {
								q = "Search(U >= -5).And(" + q[7:]
							}
							base, err := mk(chain).Collect()
							if err != nil {
								fail("collect-err", fmt.Sprintf("%s: %s failed: %v", after, q, err))
								return false
							}
							wantN := 0
							for _, v := range vals {
								ok := false
								switch op {
								case "=":
									ok = v == p
								case "!=":
									ok = v != p
								case "<":
									ok = v < p
								case "<=":
									ok = v <= p
								case ">":
									ok = v > p
								case ">=":
									ok = v >= p
								}
								if ok {
									wantN++
								}
							}
							if len(base) != wantN {
								fail("matches|"+field+op, fmt.Sprintf("%s: %s returns %d objects, %d stored objects match", after, q, len(base), wantN))
								return false
							}
							for i := 1; i < len(base); i++ {
								if base[i].(*Wide).A > base[i-1].(*Wide).A {
									fail("order|"+field+op, fmt.Sprintf("%s: %s is not in non-increasing order of %s", after, q, field))
									return false
								}
							}
							rev, err := mk(chain).Reverse().Collect()
							if err != nil || len(rev) != len(base) {
								fail("reverse-size|"+field+op, fmt.Sprintf("%s: %s.Reverse() returns %d objects (%v), the plain search %d", after, q, len(rev), err, len(base)))
								return false
							}
							for i := 1; i < len(rev); i++ {
								if rev[i].(*Wide).A < rev[i-1].(*Wide).A {
									fail("reverse-order|"+field+op, fmt.Sprintf("%s: %s.Reverse() is not in non-decreasing order of %s", after, q, field))
									return false
								}
							}
							m := len(base)
							for _, lim := range []int{0, 1, 2, m - 1, m, m + 1} {
								if lim < 0 {
									continue
								}
								want := lim
								if want > m {
									want = m
								}
								got, err := mk(chain).Limit(uint64(lim)).Collect()
								if err != nil || fmt.Sprint(ids(got)) != fmt.Sprint(ids(base[:want])) {
									fail("limit|"+field+op, fmt.Sprintf("%s: %s.Limit(%d) does not return the first %d of the %d matches in order (%d objects, err %v)", after, q, lim, want, m, len(got), err))
									return false
								}
								gotr, err := mk(chain).Reverse().Limit(uint64(lim)).Collect()
								if err != nil || fmt.Sprint(ids(gotr)) != fmt.Sprint(ids(rev[:want])) {
									fail("reverse-limit|"+field+op, fmt.Sprintf("%s: %s.Reverse().Limit(%d) does not return the first %d of the %d matches of the reversed order (%d objects, err %v)", after, q, lim, want, m, len(gotr), err))
									return false
								}
								gotl, err := mk(chain).Limit(uint64(lim)).Reverse().Collect()
								if err != nil || fmt.Sprint(ids(gotl)) != fmt.Sprint(ids(rev[:want])) {
									fail("limit-reverse|"+field+op, fmt.Sprintf("%s: %s.Limit(%d).Reverse() does not return the first %d of the %d matches of the reversed order (%d objects, err %v)", after, q, lim, want, m, len(gotl), err))
									return false
								}
							}
							one, err := mk(chain).One()
							switch {
							case m == 0 && !sod.IsNoObjectFound(err):
								fail("one-empty|"+field+op, fmt.Sprintf("%s: %s.One() on no match returns (%v, %v)", after, q, one, err))
								return false
							case m > 0 && (err != nil || one.UUID() != base[0].UUID()):
								fail("one|"+field+op, fmt.Sprintf("%s: %s.One() is not the first element of Collect (err %v)", after, q, err))
								return false
							}
							if m > 0 {
								oner, err := mk(chain).Reverse().One()
								if err != nil || oner.UUID() != rev[0].UUID() {
									fail("reverse-one|"+field+op, fmt.Sprintf("%s: %s.Reverse().One() is not the first element of the reversed order (err %v)", after, q, err))
									return false
								}
							}
							c.Count("evaluations", 1)
						}
					}
				}
			}
			var idxv []int
			if err := db.AssignIndex(&Wide{}, "A", &idxv); err != nil || len(idxv) != nobj {
				fail("assignindex", fmt.Sprintf("%s: AssignIndex(A) returns %d values (%v) for %d objects", after, len(idxv), err, nobj))
				return false
			}
			for i := 1; i < len(idxv); i++ {
				if idxv[i] > idxv[i-1] {
					fail("assignindex-order", fmt.Sprintf("%s: AssignIndex(A) = %v is not in non-increasing order", after, idxv))
					return false
				}
			}
			return true
		}
		var uuids []string
		for i, v := range digits {
			o := &Wide{A: v, B: wideB(v), U: v, Seq: i, K: wideKey(), N: wideSerial}
			if err := db.InsertOrUpdate(o); err != nil {
				fail("insert", fmt.Sprintf("insert #%d failed: %v", i, err))
				return
			}
			uuids = append(uuids, o.UUID())
			vals[o.UUID()] = v
			nobj++
			if nobj >= 4 && !verify(fmt.Sprintf("after %d insertions", i+1)) {
				return
			}
		}
		for i, u := range uuids {
			nv := (vals[u] + 1 + i%2) % 3
			o := &Wide{A: nv, B: wideB(nv), U: nv, Seq: i, K: wideKey(), N: wideSerial}
			o.Initialize(u)
			if err := db.InsertOrUpdate(o); err != nil {
				fail("update", fmt.Sprintf("update of #%d failed: %v", i, err))
				return
			}
			vals[u] = nv
		}
		if !verify("after the insertions and an update of every object") {
			return
		}
		for len(uuids) > 2 {
			k := len(uuids) / 2
			o := &Wide{}
			o.Initialize(uuids[k])
			if err := db.Delete(o); err != nil {
				fail("delete", fmt.Sprintf("delete failed: %v", err))
				return
			}
			delete(vals, uuids[k])
			uuids = append(uuids[:k], uuids[k+1:]...)
			nobj--
			if !verify(fmt.Sprintf("after updates and deletions down to %d objects", nobj)) {
				return
			}
		}
	})
	for _, p := range ex.Panics {
		fail("panic|"+normPanic(p.Value+" @ "+sodFrame(p.Stack)), "panic: "+p.Value+"\n"+trimStack(p.Stack))
	}
	if ex.Deadlock || ex.Horizon {
		fail("stuck", "the sweep blocked")
	}
	return viol
}

func runC13Long(c *Ctx) {
	maxLen := 5
	cfgs := []Cfg{{}, {Cache: true, Index: 2}}
	if c.Tier == "thorough" {
		maxLen = 7
		cfgs = append(cfgs, Cfg{Async: 2, Compress: true})
	}
	item := 0
	for _, cfg := range cfgs {
		total := 1
		for i := 0; i < maxLen; i++ {
			total *= 3
		}
		for idx := 0; idx < total; idx++ {
			item++
			if item%c.NShards != c.Shard {
				continue
			}
			if c.Expired() {
				c.Count("depth_incomplete", 1)
				return
			}
			for _, v := range longOrderSweep(c, cfg, maxLen, idx) {
				c.Violation(v)
			}
			c.Count("transitions", 3*maxLen+1)
			c.Count("paths_replayed", 1)
			key := fmt.Sprintf("long|%s|%d", cfg.String(), idx)
			c.Distinct("states", key)
			c.Distinct("distinct_nontrivial", key)
		}
	}
}

// unionSeries: result sets of every size 1..maxBase reused for two unions and a refinement
// (slices handed from one search value to the next must never share spare capacity).
func unionSeries(c *Ctx, cfg Cfg, maxBase int) []Violation {
	var viol []Violation
	fail := func(sig, what string) {
		if len(viol) < 3 {
			viol = append(viol, Violation{Sig: "C02|long|" + sig, What: what + "\n  under " + cfg.String(), Cfg: cfg})
		}
	}
	ex := vrt.Run(vrt.Config{Sequential: true, MaxTicks: 50}, func() {
		setGlobals(cfg)
		fsys := vfs.New()
		vfs.Cur = fsys
		db := sod.Open(dbRoot)
		if err := db.Create(&Wide{}, cfg.Schema(&Wide{})); err != nil {
			fail("create", "Create failed: "+err.Error())
			return
		}
		ins := func(v int) bool {
			o := &Wide{A: v, B: wideB(v), U: v, K: wideKey(), N: wideSerial}
			if err := db.InsertOrUpdate(o); err != nil {
				fail("insert", "insert failed: "+err.Error())
				return false
			}
			return true
		}
		if !ins(1) || !ins(2) || !ins(2) {
			return
		}
		for b := 1; b <= maxBase; b++ {
			if !ins(0) {
				return
			}
			for _, field := range []string{"A", "U"} {
				base := db.Search(&Wide{}, field, "=", 0)
				u1 := base.Or("A", "=", 1)
				u2 := base.Or("B", "=", wideB(2))
				a1 := base.And("B", "=", wideB(0))
				u3 := base.Or(field, ">", 0)
				for _, t := range []struct {
					s    *sod.Search
					what string
					want map[int]int
				}{
					{u1, "the first union (with A = 1)", map[int]int{0: b, 1: 1}},
					{u2, "the second union (with B = v2)", map[int]int{0: b, 2: 2}},
					{a1, "the refinement (and B = v0)", map[int]int{0: b}},
					{u3, "the third union (with everything greater)", map[int]int{0: b, 1: 1, 2: 2}},
					{base, "the base search itself", map[int]int{0: b}},
				} {
					objs, err := t.s.Collect()
					got := map[int]int{}
					seen := map[string]bool{}
					dup := false
					for _, o := range objs {
						got[o.(*Wide).A]++
						if seen[o.UUID()] {
							dup = true
						}
						seen[o.UUID()] = true
					}
					if err != nil || dup || fmt.Sprint(got) != fmt.Sprint(t.want) || t.s.Len() != len(objs) {
						fail("union-series", fmt.Sprintf("a search on %s with %d results was used for three unions and a refinement; afterwards %s holds %v per value (duplicate %v, Len %d, err %v), expected %v", field, b, t.what, got, dup, t.s.Len(), err, t.want))
						return
					}
					c.Count("evaluations", 1)
				}
			}
		}
	})
	for _, p := range ex.Panics {
		fail("panic|"+normPanic(p.Value+" @ "+sodFrame(p.Stack)), "panic: "+p.Value+"\n"+trimStack(p.Stack))
	}
	return viol
}
