package main

import (
	"fmt"
)

func init() {
	drivers["C20"] = runC20
}

// write menu between evaluating and collecting a search: inserts below / inside /
// above the result range, updates into / out of / within the range, deletes of
// members and non-members, DeleteAll.
func writeMenuC20() []Op {
	return []Op{
		{Op: "ins", V: 0, K: 1},
		{Op: "ins", V: 2, K: 1},
		{Op: "ins", V: 3, K: 1},
		{Op: "upd", Slot: 0, V: 3, K: 0},
		{Op: "upd", Slot: 0, V: 0, K: 0},
		{Op: "upd", Slot: 1, V: 2, K: 2},
		{Op: "del", Slot: 0},
		{Op: "del", Slot: 1},
		{Op: "del", Slot: 2},
		{Op: "delall"},
	}
}

func runC20(c *Ctx) {
	depth := 2
	cfgs := []Cfg{{}, {Cache: true, Index: 2}, {Async: 1}}
	if c.Tier == "thorough" {
		depth = 3
		cfgs = append(cfgs, Cfg{Index: 1, Compress: true, MapRev: true})
	}
	writes := writeMenuC20()
	var seqs [][]Op
	for _, a := range writes {
		seqs = append(seqs, []Op{a})
	}
	for _, a := range writes {
		for _, b := range writes {
			seqs = append(seqs, []Op{a, b})
		}
	}
	// queries: every operator on indexed, unique and unindexed fields
	var queries []Query
	for _, f := range []string{"A", "S", "P", "K"} {
		spec := specByPath(f)
		for _, op := range operators {
			if op == "~=" {
				if spec.Kind == kString {
					queries = append(queries, Query{First: Atom{f, op, "."}})
				}
				continue
			}
			queries = append(queries, Query{First: Atom{f, op, spec.probes()[2]}})
		}
	}
	atoms := atomMenu()
	queries = append(queries,
		Query{First: atoms[0], Rest: []Link{{Or: true, Atom: atoms[3]}}},
		Query{First: atoms[2], Rest: []Link{{Atom: atoms[4]}}},
		Query{First: atoms[1], Rest: []Link{{Or: true, Atom: atoms[5]}}})
	for _, cfg := range cfgs {
		cfg := cfg
		e := &Explorer{C: c, Cfg: cfg, Prop: "C20", Alphabet: alphabetContents(cfg), Depth: depth, MaxLive: 3, Collect: true, NoShard: true}
		e.Run()
		item := 0
		for _, st := range e.States {
			for qi, q := range queries {
				for _, ws := range seqs {
					item++
					if item%c.NShards != c.Shard {
						continue
					}
					if c.Expired() {
						c.Count("depth_incomplete", 1)
						return
					}
					q, ws := q, ws
					applicable := true
					res := RunPath(cfg, "C20", st, func(w *World) {
						for _, op := range ws {
							if !w.Applicable(op) {
								applicable = false
								return
							}
						}
						w.Viol = nil
						matched := w.evalModel(q)
						s := w.evalImpl(q)
						if s.Err() != nil {
							w.fail("eval-err", fmt.Sprintf("query %s failed: %v", q, s.Err()))
							return
						}
						// a second value derived from the first one before the writes
						for _, op := range ws {
							w.Apply(op)
						}
						if len(w.Viol) > 0 {
							return
						}
						for _, term := range []string{"collect", "assign", "one", "and-collect", "and-unindexed-collect"} {
							var got []string
							var err error
							switch term {
							case "and-collect":
								// refine the kept value on an indexed field with a comparison every object satisfies
								objs, cerr := s.And("A", ">=", int(-9223372036854775808)).Collect()
								got, err = seqOf(objs), cerr
							case "and-unindexed-collect":
								objs, cerr := s.And("P", ">=", int(-1)).Collect()
								got, err = seqOf(objs), cerr
							default:
								got, err = w.terminal(s, term)
							}
							seen := map[string]bool{}
							for _, u := range got {
								if !matched[u] {
									w.fail("snapshot-foreign|"+term, fmt.Sprintf("search %s evaluated before %s: %s returned %s which did not match at evaluation time (matched then: %s)", q, jsonOf(ws), term, w.rename(u), w.rename(fmt.Sprint(setKeys(matched)))))
									return
								}
								if seen[u] {
									w.fail("snapshot-dup|"+term, fmt.Sprintf("search %s evaluated before %s: %s returned %s twice", q, jsonOf(ws), term, w.rename(u)))
									return
								}
								seen[u] = true
							}
							if err == nil && (term == "collect" || term == "assign") {
								// without an error, every member that still exists must be there
								for u := range matched {
									if _, alive := w.M.Objs[u]; alive && !seen[u] {
										w.fail("snapshot-lost|"+term, fmt.Sprintf("search %s evaluated before %s: %s silently lost member %s which still exists", q, jsonOf(ws), term, w.rename(u)))
										return
									}
								}
							}
						}
						if s.Len() != len(matched) {
							w.fail("snapshot-len", fmt.Sprintf("search %s: Len() changed from %d to %d after %s", q, len(matched), s.Len(), jsonOf(ws)))
						}
					})
					if !applicable {
						continue
					}
					c.Count("evaluations", 1)
					c.Count("paths_replayed", 1)
					c.Count("transitions", len(ws))
					if len(res.W.M.Objs) > 0 || len(ws) > 1 {
						c.Distinct("distinct_nontrivial", cfg.String()+jsonOf(st)+fmt.Sprint(qi)+jsonOf(ws))
					}
					for _, v := range res.W.Viol {
						c.Violation(v)
					}
				}
			}
		}
	}
	runBigC20(c)
	c.Meta(map[string]interface{}{
		"rule":    "(larger results: for every result size 1..24 (thorough 70) six kept search values (=, >=, <=, unindexed, And-chain, union) x six rewriting scripts (inserts only; every third object deleted + inserts; as many deletions as insertions; updates out of and into the range; DeleteAll + inserts; delete-by-search + inserts): Collect, Collect again, late And, Reverse return only evaluation-time members, once, lose no survivor when they report no error; Delete through the kept value removes evaluation-time members only.) for every state reached by BFS (depth as stated), every query of the menu (all operators on indexed, unique and unindexed fields, And/Or pairs) is evaluated and kept; every write sequence of length <= 2 from the write menu (inserts below/inside/above the range, updates into/out of/within the range, deletes of members and non-members, DeleteAll) is applied; then Collect, Assign, One and Len on the kept value: only objects matched at evaluation time, none twice, survivors not silently lost. Non-trivial = distinct (state, query, write sequence) triples on non-empty collections.",
		"queries": len(queries), "write_sequences": len(seqs), "configs": cfgs, "depth": depth,
	})
}
