package main

import (
	"fmt"
	"sort"
	"strings"

	"github.com/0xrawsec/sod"
	"github.com/0xrawsec/sod/zzverif/vfs"
	"github.com/0xrawsec/sod/zzverif/vrt"
)

// ---- E2: stateless, deviation-bounded schedule exploration of the real code -----------------

// Call is one API call of a client thread (argument classes).
type Call struct {
	Name  string `json:"name"`
	V     int    `json:"v,omitempty"`
	K     int    `json:"k,omitempty"`
	Slot  int    `json:"slot,omitempty"`
	Field string `json:"field,omitempty"`
	Cmp   string `json:"cmp,omitempty"`
	Probe int    `json:"probe,omitempty"`
	Reg   int    `json:"reg,omitempty"`
}

func (c Call) String() string { return jsonOf(c) }

// Prog is one concurrent program: set-up run by the driver alone, then client threads.
type Prog struct {
	Cfg     Cfg      `json:"cfg"`
	Setup   []Op     `json:"setup,omitempty"`
	Cold    bool     `json:"cold,omitempty"` // clients start on a freshly opened handle: nothing loaded
	Threads [][]Call `json:"threads"`
	Ticks   int      `json:"ticks,omitempty"` // ticks granted after the clients finished (async deadlines)
	// TrackSlots: an accepted insert of the (single) client becomes the next slot at once,
	// so that its later calls can address the object it just created
	TrackSlots bool `json:"track_slots,omitempty"`
	// Atomic: reduction "no alternative while the running thread holds an outermost
	// lock in write mode" (vrt.Config.AtomicOuterWrite)
	Atomic bool `json:"atomic,omitempty"`
	// Damage: done to the directory after the set-up: "missing-file" removes the file of the
	// first object, "garbled-file" overwrites it (the calls then meet an unreadable object)
	Damage string `json:"damage,omitempty"`
}

// CallRec is the record of one executed call.
type CallRec struct {
	Thread int
	Index  int
	Call   Call
	Inv    int
	Resp   int
	Res    string // observed result, normalised
	UUID   string // uuid assigned by an accepted insert
	Done   bool
}

// ExecResult of one schedule.
type ExecResult struct {
	X       *vrt.Exec
	Hist    []CallRec
	Final   string // final observation by the driver (after joins)
	W       *World
	Notes   []string
	Regs    map[int]map[string]bool
	Started bool
}

//go:norace
func nextStamp(p *int) int {
	*p++
	return *p
}

// runProg executes prog under the schedule prefix.
func runProg(prog Prog, prefix []int, bound int, final func(w *World, r *ExecResult)) *ExecResult {
	r := &ExecResult{}
	nthreads := len(prog.Threads)
	recs := make([][]CallRec, nthreads)
	for i := range recs {
		recs[i] = make([]CallRec, len(prog.Threads[i]))
	}
	clock := 0
	// concurrent programs are short: an execution that takes tens of thousands of scheduling
	// events is a busy loop (e.g. a background writer that re-flushes without ever sleeping)
	cfg := vrt.Config{Prefix: prefix, MaxTicks: 40 + prog.Ticks, AtomicOuterWrite: prog.Atomic, MaxEvents: 60000}
	x := vrt.Run(cfg, func() {
		// set-up and final phases run unscheduled: only the concurrent phase is explored
		vrt.SetSequential(true)
		w := NewWorld(prog.Cfg, "E2")
		r.W = w
		for _, op := range prog.Setup {
			if !w.Applicable(op) {
				return
			}
			w.Apply(op)
		}
		if len(w.Viol) > 0 {
			return
		}
		if prog.Cold {
			if err := w.DB.Close(); err != nil {
				w.fail("close-err", err.Error())
				return
			}
			// the flusher of the old handle must have stopped before the new handle works on the directory
			vrt.Quiesce()
			vfs.Cur = w.FS
			w.DB = sod.Open(w.Root)
		}
		if prog.Damage != "" && len(w.Slots) > 0 {
			if prog.Cfg.Async != 0 {
				w.DB.FlushAllAndCommit(&Rec{})
			}
			p := w.collDir() + "/" + w.fileName(w.Slots[0])
			switch prog.Damage {
			case "missing-file":
				w.FS.Del(p)
			case "garbled-file":
				w.FS.Put(p, []byte("{\"K\": 12"))
			}
		}
		r.Started = true
		vrt.SetSequential(false)
		ids := make([]int, nthreads)
		for ti := 0; ti < nthreads; ti++ {
			ti := ti
			ids[ti] = vrt.GoNamed(fmt.Sprintf("client%d", ti), func() {
				for ci, call := range prog.Threads[ti] {
					rec := &recs[ti][ci]
					rec.Thread, rec.Index, rec.Call = ti, ci, call
					rec.Inv = nextStamp(&clock)
					rec.Res, rec.UUID = execCall(w, call)
					if prog.TrackSlots && call.Name == "ins" && rec.Res == "ok" {
						w.Slots = append(w.Slots, rec.UUID)
					}
					rec.Resp = nextStamp(&clock)
					rec.Done = true
				}
			})
		}
		for _, id := range ids {
			vrt.Join(id)
		}
		vrt.SetSequential(true)
		for ti := range recs {
			r.Hist = append(r.Hist, recs[ti]...)
		}
		if prog.Ticks > 0 {
			vrt.Tick(prog.Ticks)
		}
		if final != nil {
			final(w, r)
		}
	})
	r.X = x
	if len(r.Hist) == 0 {
		// the driver did not reach the end (deadlock, panic): partial history
		for ti := range recs {
			r.Hist = append(r.Hist, recs[ti]...)
		}
	}
	return r
}

// execCall runs one client call; the result string is what the caller observes.
func execCall(w *World, c Call) (res string, uuid string) {
	db := w.DB
	slotUUID := func() string {
		if c.Slot < len(w.Slots) {
			return w.Slots[c.Slot]
		}
		return NeverUUID
	}
	cls := func(err error) string {
		k := classify(err)
		if isNotFoundClass(k) {
			return "notfound"
		}
		return k
	}
	switch c.Name {
	case "ins":
		r := NewRec(c.V, c.K)
		err := db.InsertOrUpdate(r)
		if err == nil {
			return "ok", r.UUID()
		}
		return cls(err), ""
	case "upd":
		r := NewRec(c.V, c.K)
		r.Initialize(slotUUID())
		return cls(db.InsertOrUpdate(r)), ""
	case "many":
		a, b := NewRec(c.V, c.K), NewRec((c.V+1)%NV, (c.K+2)%NK)
		n, err := db.InsertOrUpdateMany(a, b)
		if err == nil {
			return fmt.Sprintf("ok:%d", n), a.UUID() + "," + b.UUID()
		}
		return fmt.Sprintf("%s:%d", cls(err), n), ""
	case "del":
		r := &Rec{}
		r.Initialize(slotUUID())
		return cls(db.Delete(r)), ""
	case "delall":
		return cls(db.DeleteAll(&Rec{})), ""
	case "sdel":
		spec := specByPath(c.Field)
		s := db.Search(&Rec{}, c.Field, c.Cmp, spec.probes()[c.Probe])
		if s.Err() != nil {
			return cls(s.Err()), ""
		}
		return cls(s.Delete()), ""
	case "get":
		r := &Rec{}
		r.Initialize(slotUUID())
		o, err := db.Get(r)
		if err != nil {
			return cls(err), ""
		}
		return "ok:" + jsonOf(o), ""
	case "getbyuuid":
		o, err := db.GetByUUID(&Rec{}, slotUUID())
		if err != nil {
			return cls(err), ""
		}
		return "ok:" + jsonOf(o), ""
	case "exist":
		r := &Rec{}
		r.Initialize(slotUUID())
		ok, err := db.Exist(r)
		return fmt.Sprintf("%v:%s", ok, cls(err)), ""
	case "count":
		n, err := db.Count(&Rec{})
		return fmt.Sprintf("%d:%s", n, cls(err)), ""
	case "all":
		objs, err := db.All(&Rec{})
		if err != nil {
			return cls(err), ""
		}
		return "ok:" + objSet(objs), ""
	case "assignall":
		var recs []*Rec
		err := db.AssignAll(&Rec{}, &recs)
		if err != nil {
			return cls(err), ""
		}
		var objs []sod.Object
		for _, x := range recs {
			objs = append(objs, x)
		}
		return "ok:" + objSet(objs), ""
	case "assignindex":
		var t []int
		err := db.AssignIndex(&Rec{}, "A", &t)
		sort.Ints(t)
		return fmt.Sprintf("%s:%v", cls(err), t), ""
	case "schema":
		_, err := db.Schema(&Rec{})
		return cls(err), ""
	case "search", "searchu":
		// search + collect as one user-level sequence of two calls is modelled by "search" followed by "collect";
		// here: evaluate and read the length only (a single call)
		spec := specByPath(c.Field)
		s := db.Search(&Rec{}, c.Field, c.Cmp, spec.probes()[c.Probe])
		if s.Err() != nil {
			return cls(s.Err()), ""
		}
		return fmt.Sprintf("ok:%d", s.Len()), ""
	case "collect":
		// evaluate and collect: two calls; the result must be explained by the state at the
		// evaluation or any later state up to the collect (checked as evaluation-time set
		// by the linearizability oracle only for quiescent collects); reported as a set
		spec := specByPath(c.Field)
		s := db.Search(&Rec{}, c.Field, c.Cmp, spec.probes()[c.Probe])
		objs, err := s.Collect()
		if e := firstErr(s.Err(), err); e != nil {
			return cls(e), ""
		}
		return "ok:" + objIDs(objs, false), ""
	case "andor":
		spec := specByPath(c.Field)
		s := db.Search(&Rec{}, "A", ">=", int(0)).And(c.Field, c.Cmp, spec.probes()[c.Probe]).Or("P", "=", int(1))
		if s.Err() != nil {
			return cls(s.Err()), ""
		}
		return fmt.Sprintf("ok:%d", s.Len()), ""
	case "limitor":
		// a limited search united with another one: V = the limit
		spec := specByPath(c.Field)
		s := db.Search(&Rec{}, c.Field, c.Cmp, spec.probes()[c.Probe]).Limit(uint64(c.V)).Or("P", ">=", int(0))
		if s.Err() != nil {
			return cls(s.Err()), ""
		}
		s.Collect()
		s2 := db.Search(&Rec{}, "P", ">=", int(0)).Limit(uint64(c.V)).Reverse().And(c.Field, c.Cmp, spec.probes()[c.Probe])
		s2.Collect()
		return "done", ""
	case "emptyor":
		// union of a search that matches nothing (whenever it is evaluated) with a condition:
		// the Or call is the only step that reads the collection
		spec := specByPath(c.Field)
		s := db.Search(&Rec{}, "S", "=", "\x00never-stored").Or(c.Field, c.Cmp, spec.probes()[c.Probe])
		if s.Err() != nil {
			return cls(s.Err()), ""
		}
		return fmt.Sprintf("ok:%d", s.Len()), ""
	case "one":
		spec := specByPath(c.Field)
		o, err := db.Search(&Rec{}, c.Field, c.Cmp, spec.probes()[c.Probe]).One()
		if err != nil {
			return cls(err), ""
		}
		return "ok:" + o.UUID(), ""
	case "commit":
		return cls(db.Commit(&Rec{})), ""
	case "flushall":
		return cls(db.FlushAll(&Rec{})), ""
	case "flushallc":
		return cls(db.FlushAllAndCommit(&Rec{})), ""
	case "flush":
		r := &Rec{}
		r.Initialize(slotUUID())
		// flushing an object that is not pending is outside the statement: only its return is taken
		return "done", ""
	case "control":
		return cls(db.Control()), ""
	case "create":
		return cls(db.Create(&Rec{}, w.Cfg.Schema(&Rec{}))), ""
	case "repair":
		return cls(db.Repair(&Rec{})), ""
	case "close":
		return cls(db.Close()), ""
	case "iterator":
		it, err := db.Iterator(&Rec{})
		if err != nil {
			return cls(err), ""
		}
		_ = it
		return "ok", ""
	case "deleteobjects":
		it, err := db.Iterator(&Rec{})
		if err != nil {
			return cls(err), ""
		}
		return cls(db.DeleteObjects(it)), ""
	case "assignone", "assignunique", "assign", "expects", "operation", "reverse-limit":
		spec := specByPath(c.Field)
		s := db.Search(&Rec{}, c.Field, c.Cmp, spec.probes()[c.Probe])
		var err error
		switch c.Name {
		case "assignone":
			var r *Rec
			err = s.AssignOne(&r)
		case "assignunique":
			var r *Rec
			err = s.AssignUnique(&r)
		case "assign":
			var rs []*Rec
			err = s.Assign(&rs)
		case "expects":
			err = s.Expects(1).ExpectsZeroOrN(1).Err()
		case "operation":
			_, err = s.Operation("and", "A", ">=", int(0)).Operation("||", "P", "=", int(1)).Collect()
		case "reverse-limit":
			_, err = s.Reverse().Limit(1).Collect()
		}
		if err != nil {
			return "err", ""
		}
		return "ok", ""
	case "bulk":
		ch := make(chan sod.Object, 2)
		ch <- NewRec(c.V, c.K)
		ch <- NewRec((c.V+1)%NV, (c.K+2)%NK)
		close(ch)
		n, err := db.InsertOrUpdateBulk(ch, 1)
		return fmt.Sprintf("%s:%d", cls(err), n), ""
	case "settings":
		w.Cfg.Cache = c.V%2 == 1
		w.Cfg.Async = []int{0, 1, 2, 0}[c.V/2]
		sc := w.Cfg.Schema(&Rec{})
		if c.V/2 == 3 {
			sc.AsyncWrites = &sod.Async{Enable: false, Threshold: 2, Timeout: 2 * step}
		}
		return cls(db.Create(&Rec{}, sc)), ""
	case "orbad", "andbad":
		// a refinement that fails: unknown operator, unknown field, mistyped value
		bad := [][3]interface{}{{"A", "<>", int(1)}, {"Nope", "=", int(1)}, {"A", "=", "x"}}[c.V%3]
		s0 := db.Search(&Rec{}, "A", ">=", int(-3))
		var s1 *sod.Search
		if c.Name == "orbad" {
			s1 = s0.Or(bad[0].(string), bad[1].(string), bad[2])
		} else {
			s1 = s0.And(bad[0].(string), bad[1].(string), bad[2])
		}
		_, err := s1.Collect()
		if err != nil {
			return "err", ""
		}
		return "ok", ""
	case "searchbad":
		_, err := db.Search(&Rec{}, "P", "<>", int(1)).Collect()
		if err != nil {
			return "err", ""
		}
		return "ok", ""
	case "insbad":
		r := NewRec(c.V, c.K)
		r.P = InvalidP
		return cls(db.InsertOrUpdate(r)), ""
	case "getabsent":
		r := &Rec{}
		r.Initialize(NeverUUID)
		_, err := db.Get(r)
		return cls(err), ""
	case "drop":
		return cls(db.Drop()), ""
	case "flushandcommit":
		r := &Rec{}
		r.Initialize(slotUUID())
		return cls(db.FlushAndCommit(r)), ""
	}
	panic("unknown call " + c.Name)
}

// ---- DFS over choice lists ---------------------------------------------------------------------

// SchedStats of one program's exploration.
type SchedStats struct {
	Execs     int
	MaxPoints int
	Truncated bool
	Bound     int
}

// exploreSchedules runs every schedule of run with at most bound deviations.
// onExec returns false to stop the exploration of this program.
func exploreSchedules(bound int, maxExecs int, run func(prefix []int) *vrt.Exec, onExec func(x *vrt.Exec, choices []int) bool) SchedStats {
	st := SchedStats{Bound: bound}
	stack := [][]int{nil}
	for len(stack) > 0 {
		prefix := stack[len(stack)-1]
		stack = stack[:len(stack)-1]
		if maxExecs > 0 && st.Execs >= maxExecs {
			st.Truncated = true
			break
		}
		x := run(prefix)
		st.Execs++
		if x.NPoints > st.MaxPoints {
			st.MaxPoints = x.NPoints
		}
		choices := make([]int, x.NPoints)
		for i, p := range x.Points {
			choices[i] = int(p.Chosen)
		}
		if x.BadPrefix {
			panic(fmt.Sprintf("schedule replay diverged: prefix %v, points %d", prefix, x.NPoints))
		}
		if x.Overflow {
			st.Truncated = true
		}
		if !onExec(x, choices) {
			break
		}
		// deviations spent before each point
		spent := 0
		for i := 0; i < x.NPoints; i++ {
			p := x.Points[i]
			if i >= len(prefix) {
				for alt := 1; alt < int(p.NOpt); alt++ {
					cost := spent
					if p.CostMask&(1<<uint(alt)) != 0 {
						cost++
					}
					if cost > bound {
						continue
					}
					np := make([]int, i+1)
					copy(np, choices[:i])
					np[i] = alt
					stack = append(stack, np)
				}
			}
			if p.Chosen != 0 && p.CostMask&(1<<uint(p.Chosen)) != 0 {
				spent++
			}
		}
	}
	return st
}

// ---- linearizability: brute force over linear extensions against the reference ------------------

// modelStep applies call c (observed uuid for accepted inserts) to m and returns the expected result.
func modelStep(m *Model, slots []string, c Call, rec *CallRec) string {
	slotUUID := func() string {
		if c.Slot < len(slots) {
			return slots[c.Slot]
		}
		return NeverUUID
	}
	switch c.Name {
	case "ins":
		r := NewRec(c.V, c.K)
		cl := m.expectSingle("", r)
		if cl == eOK {
			if rec.UUID == "" {
				return "ok"
			}
			m.store(rec.UUID, r)
		}
		return cl
	case "upd":
		r := NewRec(c.V, c.K)
		u := slotUUID()
		cl := m.expectSingle(u, r)
		if cl == eOK {
			m.store(u, r)
		}
		return cl
	case "many":
		a, b := NewRec(c.V, c.K), NewRec((c.V+1)%NV, (c.K+2)%NK)
		ca, cb := cloneRec(a), cloneRec(b)
		canon(ca)
		canon(cb)
		if m.conflict("", ca) || m.conflict("", cb) || m.clash(ca, cb) {
			return "unique:0"
		}
		us := strings.Split(rec.UUID, ",")
		if len(us) == 2 {
			m.store(us[0], a)
			m.store(us[1], b)
		}
		return "ok:2"
	case "del":
		delete(m.Objs, slotUUID())
		return "ok"
	case "delall", "deleteobjects":
		for u := range m.Objs {
			delete(m.Objs, u)
		}
		return "ok"
	case "sdel":
		spec := specByPath(c.Field)
		for u := range m.search(spec, c.Cmp, spec.probes()[c.Probe]) {
			delete(m.Objs, u)
		}
		return "ok"
	case "get", "getbyuuid":
		if o, ok := m.Objs[slotUUID()]; ok {
			return "ok:" + jsonOf(o)
		}
		return "notfound"
	case "exist":
		_, ok := m.Objs[slotUUID()]
		return fmt.Sprintf("%v:ok", ok)
	case "count":
		return fmt.Sprintf("%d:ok", len(m.Objs))
	case "all", "assignall":
		var items []string
		for u, o := range m.Objs {
			items = append(items, u+"="+jsonOf(o))
		}
		sort.Strings(items)
		return "ok:" + strings.Join(items, ";")
	case "assignindex":
		var t []int
		for _, o := range m.Objs {
			t = append(t, o.A)
		}
		sort.Ints(t)
		return fmt.Sprintf("ok:%v", t)
	case "search", "searchu", "emptyor":
		spec := specByPath(c.Field)
		return fmt.Sprintf("ok:%d", len(m.search(spec, c.Cmp, spec.probes()[c.Probe])))
	case "collect":
		spec := specByPath(c.Field)
		ids := setKeys(m.search(spec, c.Cmp, spec.probes()[c.Probe]))
		return "ok:" + strings.Join(ids, ",")
	case "andor":
		spec := specByPath(c.Field)
		a := m.search(specByPath("A"), ">=", int(0))
		b := m.search(spec, c.Cmp, spec.probes()[c.Probe])
		p := m.search(specByPath("P"), "=", int(1))
		return fmt.Sprintf("ok:%d", len(setOr(setAnd(a, b), p)))
	case "schema", "commit", "flushall", "flushallc", "control", "create", "repair", "iterator", "close":
		return "ok"
	}
	return "?"
}

// twoStep: user-level sequences of two API calls (evaluate a search, then use
// it): the evaluation fixes the matched set (C20), the second call acts on it.
func twoStep(name string) bool {
	switch name {
	case "sdel", "collect", "one":
		return true
	}
	return false
}

type linStep struct {
	call  int
	final bool // last step of its call: the observed result is checked here
	first bool
}

// linearizable searches a sequential order of the steps of hist (respecting
// real-time order between calls and the order of the steps of one call) whose
// results on the reference equal the observed ones and whose final state equals
// finalObs. Returns the witness order or nil.
func linearizable(base *Model, slots []string, hist []CallRec, finalObs string) ([]int, string) {
	var steps []linStep
	for i, h := range hist {
		if twoStep(h.Call.Name) {
			steps = append(steps, linStep{call: i, first: true}, linStep{call: i, final: true})
		} else {
			steps = append(steps, linStep{call: i, first: true, final: true})
		}
	}
	n := len(steps)
	used := make([]bool, n)
	order := make([]int, 0, n)
	matched := make([]map[string]bool, len(hist))
	var lastTried string
	var rec func(m *Model) bool
	rec = func(m *Model) bool {
		if len(order) == n {
			got := modelStep(m, slots, Call{Name: "all"}, nil)
			lastTried = got
			return finalObs == "" || got == finalObs
		}
		for i := 0; i < n; i++ {
			if used[i] {
				continue
			}
			st := steps[i]
			ok := true
			for j := 0; j < n; j++ {
				if used[j] || j == i {
					continue
				}
				// real-time order between calls; step order inside a call
				if hist[steps[j].call].Resp < hist[st.call].Inv || (steps[j].call == st.call && j < i) {
					ok = false
					break
				}
			}
			if !ok {
				continue
			}
			h := &hist[st.call]
			mc := m.Clone()
			var saved map[string]bool
			good := true
			switch {
			case twoStep(h.Call.Name) && st.first && !st.final:
				spec := specByPath(h.Call.Field)
				saved = matched[st.call]
				matched[st.call] = mc.search(spec, h.Call.Cmp, spec.probes()[h.Call.Probe])
			case twoStep(h.Call.Name) && st.final:
				good = twoStepFinal(mc, h, matched[st.call])
			default:
				good = modelStep(mc, slots, h.Call, h) == h.Res
			}
			if !good {
				continue
			}
			used[i] = true
			order = append(order, i)
			if rec(mc) {
				return true
			}
			used[i] = false
			order = order[:len(order)-1]
			if saved != nil || (twoStep(h.Call.Name) && st.first && !st.final) {
				matched[st.call] = saved
			}
		}
		return false
	}
	if rec(base.Clone()) {
		return order, ""
	}
	return nil, lastTried
}

// twoStepFinal applies the second call of a two-call sequence on m given the
// set matched at evaluation, and tells whether the observed result is explained.
func twoStepFinal(m *Model, h *CallRec, set map[string]bool) bool {
	missing := false
	var alive []string
	for u := range set {
		if _, ok := m.Objs[u]; ok {
			alive = append(alive, u)
		} else {
			missing = true
		}
	}
	sort.Strings(alive)
	switch h.Call.Name {
	case "sdel":
		for _, u := range alive {
			delete(m.Objs, u)
		}
		// deleting an already deleted member is not an error for Delete (file absent, nothing indexed)
		return h.Res == "ok"
	case "collect":
		if missing {
			// a member deleted since the evaluation: an error, or the member omitted
			return h.Res == "notfound" || h.Res == "ok:"+strings.Join(alive, ",")
		}
		return h.Res == "ok:"+strings.Join(alive, ",")
	case "one":
		if len(set) == 0 {
			return h.Res == "notfound"
		}
		if h.Res == "notfound" {
			return missing
		}
		u := strings.TrimPrefix(h.Res, "ok:")
		_, still := m.Objs[u]
		return set[u] && still
	}
	return false
}
