package main

import (
	"fmt"
	"os"
)

func init() { drivers["SELFTEST"] = runSelfTest }

// runSelfTest: engine self-tests (determinism of replay; environment-model
// conformance tests are in conform_*.go). A failure is an engine error.
func runSelfTest(c *Ctx) {
	untouchedDeep = c.Tier == "thorough"
	if os.Getenv("VERIF_PHASE") == "untouched" {
		runUntouchedPhase(c)
		return
	}
	path := []Op{{Op: "ins", V: 1, K: 2}, {Op: "ins", V: 2, K: 3}, {Op: "upd", Slot: 0, V: 3, K: 0}, {Op: "reopen"}, {Op: "del", Slot: 1}}
	for _, cfg := range cfgQuick {
		var keys [2]string
		var fing [2]uint64
		for i := 0; i < 2; i++ {
			r := RunPath(cfg, "SELFTEST", path, func(w *World) { w.SweepBasic(); keys[i] = w.StateKey() })
			fing[i] = r.Exec.Finger
			if len(r.W.Viol) > 0 {
				panic(fmt.Sprintf("selftest: violation on a plain history under %v: %v", cfg, r.W.Viol[0].What))
			}
		}
		if keys[0] != keys[1] || fing[0] != fing[1] {
			panic(fmt.Sprintf("selftest: replay is not deterministic under %v", cfg))
		}
		c.Count("transitions", len(path))
		c.Count("paths_replayed", 2)
		c.Distinct("states", keys[0])
	}
	selfTestExtra(c)
	compareUntouched(c)
	c.Sample(map[string]interface{}{"history": path})
	c.Meta(map[string]interface{}{"rule": "engine self-tests"})
}
