package main

import (
	"fmt"
	"os"

	"github.com/0xrawsec/sod/zzverif/vrt"
)

func init() { drivers["SELFTEST"] = runSelfTest }

// runSelfTest: engine self-tests (determinism of replay; environment-model
// conformance tests are in conform_*.go). A failure is an engine error.
func runSelfTest(c *Ctx) {
	untouchedDeep = c.Tier == "thorough"
	if os.Getenv("VERIF_PHASE") == "untouched" {
		runUntouchedPhase(c)
		return
	}
	path := []Op{{Op: "ins", V: 1, K: 2}, {Op: "ins", V: 2, K: 3}, {Op: "upd", Slot: 0, V: 3, K: 0}, {Op: "reopen"}, {Op: "del", Slot: 1}}
	for _, cfg := range cfgQuick {
		var keys [2]string
		var fing [2]uint64
		for i := 0; i < 2; i++ {
			r := RunPath(cfg, "SELFTEST", path, func(w *World) { w.SweepBasic(); keys[i] = w.StateKey() })
			fing[i] = r.Exec.Finger
			if len(r.W.Viol) > 0 {
				panic(fmt.Sprintf("selftest: violation on a plain history under %v: %v", cfg, r.W.Viol[0].What))
			}
		}
		if keys[0] != keys[1] || fing[0] != fing[1] {
			panic(fmt.Sprintf("selftest: replay is not deterministic under %v", cfg))
		}
		c.Count("transitions", len(path))
		c.Count("paths_replayed", 2)
		c.Distinct("states", keys[0])
	}
	// schedules replay deterministically: same choice list => same event fingerprint and same results
	if c.Shard == 0 {
		progs := []Prog{
			{Cfg: Cfg{}, Setup: []Op{{Op: "ins", V: 1, K: 0}}, Threads: [][]Call{{{Name: "all"}}, {{Name: "ins", V: 2, K: 3}}}},
			{Cfg: Cfg{Async: 1}, Setup: []Op{{Op: "ins", V: 1, K: 0}, {Op: "ins", V: 2, K: 2}}, Threads: [][]Call{{{Name: "delall"}}, {{Name: "ins", V: 3, K: 4}, {Name: "count"}}}, Ticks: 2},
			{Cfg: Cfg{Cache: true}, Setup: []Op{{Op: "ins", V: 1, K: 0}}, Cold: true, Threads: [][]Call{{{Name: "get", Slot: 0}}, {{Name: "collect", Field: "P", Cmp: ">=", Probe: 0}}}},
		}
		for _, prog := range progs {
			n := 0
			var last *ExecResult
			exploreSchedules(2, 60, func(prefix []int) *vrt.Exec {
				last = runProg(prog, prefix, 2, nil)
				return last.X
			}, func(x *vrt.Exec, choices []int) bool {
				again := runProg(prog, choices, 2, nil)
				if again.X.Finger != x.Finger || again.X.NPoints != x.NPoints || fmt.Sprint(histResults(again.Hist)) != fmt.Sprint(histResults(last.Hist)) {
					panic(fmt.Sprintf("selftest: schedule %v of program %s does not replay deterministically", choices, jsonOf(prog)))
				}
				n++
				return true
			})
			c.Count("schedules_replayed_twice", n)
			c.Count("transitions", n)
		}
	}
	selfTestExtra(c)
	compareUntouched(c)
	c.Sample(map[string]interface{}{"history": path})
	c.Meta(map[string]interface{}{"rule": "engine self-tests"})
}

func histResults(h []CallRec) []string {
	var out []string
	for _, r := range h {
		out = append(out, fmt.Sprintf("%d.%d:%s", r.Thread, r.Index, r.Res))
	}
	return out
}
