package main

import (
	"fmt"
	"reflect"
	"sort"
	"strings"
	"time"
	"unsafe"
)

// dumper writes a canonical, deterministic rendering of a Go object graph,
// including unexported fields: maps sorted by key, pointers numbered in order of
// first visit (so aliasing is part of the rendering), slices with their length
// and whether spare capacity exists. It is used to hash the complete state of a
// database handle without depending on the names of its private fields.
type dumper struct {
	sb   strings.Builder
	seen map[unsafe.Pointer]int
}

var timeT = reflect.TypeOf(time.Time{})

func dumpValue(roots ...interface{}) string {
	d := &dumper{seen: map[unsafe.Pointer]int{}}
	for _, r := range roots {
		d.walk(reflect.ValueOf(r), 0)
		d.sb.WriteByte('\n')
	}
	return d.sb.String()
}

func clean(v reflect.Value) reflect.Value {
	if v.CanInterface() {
		return v
	}
	if v.CanAddr() {
		return reflect.NewAt(v.Type(), unsafe.Pointer(v.UnsafeAddr())).Elem()
	}
	return v
}

func skipType(t reflect.Type) bool {
	p := t.PkgPath()
	if p == "sync" || p == "sync/atomic" || p == "context" || strings.Contains(p, "/zzverif/") || p == "regexp" || p == "regexp/syntax" {
		return true
	}
	return false
}

func (d *dumper) walk(v reflect.Value, depth int) {
	if !v.IsValid() {
		d.sb.WriteString("nil")
		return
	}
	if depth > 40 {
		d.sb.WriteString("<deep>")
		return
	}
	v = clean(v)
	t := v.Type()
	if skipType(t) {
		d.sb.WriteString("<" + t.String() + ">")
		return
	}
	if t == timeT && v.CanInterface() {
		tm := v.Interface().(time.Time)
		_, off := tm.Zone()
		fmt.Fprintf(&d.sb, "time(%d,%d)", tm.UnixNano(), off)
		return
	}
	switch v.Kind() {
	case reflect.Bool:
		fmt.Fprintf(&d.sb, "%v", v.Bool())
	case reflect.Int, reflect.Int8, reflect.Int16, reflect.Int32, reflect.Int64:
		fmt.Fprintf(&d.sb, "%d", v.Int())
	case reflect.Uint, reflect.Uint8, reflect.Uint16, reflect.Uint32, reflect.Uint64, reflect.Uintptr:
		fmt.Fprintf(&d.sb, "%du", v.Uint())
	case reflect.Float32, reflect.Float64:
		fmt.Fprintf(&d.sb, "%x", v.Float())
	case reflect.Complex64, reflect.Complex128:
		fmt.Fprintf(&d.sb, "%v", v.Complex())
	case reflect.String:
		fmt.Fprintf(&d.sb, "%q", v.String())
	case reflect.Func:
		if v.IsNil() {
			d.sb.WriteString("func(nil)")
		} else {
			d.sb.WriteString("func")
		}
	case reflect.Chan, reflect.UnsafePointer:
		d.sb.WriteString("<" + t.String() + ">")
	case reflect.Interface:
		if v.IsNil() {
			d.sb.WriteString("iface(nil)")
			return
		}
		e := v.Elem()
		d.sb.WriteString("iface(" + e.Type().String() + ":")
		d.walk(e, depth+1)
		d.sb.WriteByte(')')
	case reflect.Ptr:
		if v.IsNil() {
			d.sb.WriteString("nil")
			return
		}
		p := unsafe.Pointer(v.Pointer())
		if id, ok := d.seen[p]; ok {
			fmt.Fprintf(&d.sb, "&ref%d", id)
			return
		}
		id := len(d.seen)
		d.seen[p] = id
		fmt.Fprintf(&d.sb, "&%d:", id)
		d.walk(v.Elem(), depth+1)
	case reflect.Struct:
		sv := v
		if !sv.CanAddr() {
			c := reflect.New(t).Elem()
			if v.CanInterface() {
				c.Set(v)
				sv = c
			}
		}
		d.sb.WriteString(t.String() + "{")
		for i := 0; i < t.NumField(); i++ {
			if i > 0 {
				d.sb.WriteByte(',')
			}
			d.sb.WriteString(t.Field(i).Name + ":")
			d.walk(sv.Field(i), depth+1)
		}
		d.sb.WriteByte('}')
	case reflect.Slice:
		if v.IsNil() {
			d.sb.WriteString("[]nil")
			return
		}
		spare := ""
		if v.Cap() > v.Len() {
			spare = "+"
		}
		fmt.Fprintf(&d.sb, "[%d%s:", v.Len(), spare)
		if t.Elem().Kind() == reflect.Uint8 {
			fmt.Fprintf(&d.sb, "%x", v.Bytes())
		} else {
			for i := 0; i < v.Len(); i++ {
				if i > 0 {
					d.sb.WriteByte(',')
				}
				d.walk(v.Index(i), depth+1)
			}
		}
		d.sb.WriteByte(']')
	case reflect.Array:
		d.sb.WriteByte('[')
		for i := 0; i < v.Len(); i++ {
			if i > 0 {
				d.sb.WriteByte(',')
			}
			d.walk(v.Index(i), depth+1)
		}
		d.sb.WriteByte(']')
	case reflect.Map:
		if v.IsNil() {
			d.sb.WriteString("map(nil)")
			return
		}
		type kv struct {
			k string
			v reflect.Value
		}
		var items []kv
		it := v.MapRange()
		for it.Next() {
			kd := &dumper{seen: map[unsafe.Pointer]int{}}
			kd.walk(it.Key(), depth+1)
			items = append(items, kv{kd.sb.String(), it.Value()})
		}
		sort.Slice(items, func(i, j int) bool { return items[i].k < items[j].k })
		d.sb.WriteString("map{")
		for i, e := range items {
			if i > 0 {
				d.sb.WriteByte(',')
			}
			d.sb.WriteString(e.k + "=>")
			d.walk(e.v, depth+1)
		}
		d.sb.WriteByte('}')
	default:
		d.sb.WriteString("<" + t.String() + ">")
	}
}
