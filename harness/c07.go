package main

import (
	"fmt"
)

func init() {
	drivers["C07"] = runC07
}

func memberMenu() []Mem {
	return []Mem{
		{Kind: "fresh", V: 0, K: 0},
		{Kind: "fresh", V: 1, K: 1}, // K collides canonically with k0, N with k2
		{Kind: "fresh", V: 2, K: 3},
		{Kind: "fresh", V: 3, K: 2},
		{Kind: "slot", Slot: 0, V: 3, K: 0},
		{Kind: "slot", Slot: 0, V: 1, K: 2}, // update onto another object's key when k2 is stored
		{Kind: "slot", Slot: 0, V: 1, K: 3}, // update onto the key of a fresh member of the same batch
		{Kind: "slot", Slot: 1, V: 2, K: 4},
		{Kind: "invalid", V: 0, K: 4},
		{Kind: "other", V: 1},
		{Kind: "nan", V: 2, K: 4},
	}
}

// batches enumerates all batches of size 0..max over the member menu, plus the
// "same pointer again" member at every later position.
func batches(max int) [][]Mem {
	menu := memberMenu()
	out := [][]Mem{{}}
	var rec func(cur []Mem)
	rec = func(cur []Mem) {
		if len(cur) > 0 {
			out = append(out, append([]Mem{}, cur...))
		}
		if len(cur) == max {
			return
		}
		for _, m := range menu {
			rec(append(cur, m))
		}
		for ref := range cur {
			if cur[ref].Kind != "same" {
				rec(append(cur, Mem{Kind: "same", Ref: ref}))
			}
		}
	}
	rec(nil)
	return out
}

func runC07(c *Ctx) {
	depth, maxBatch := 1, 2
	cfgs := []Cfg{{}, {Cache: true, Index: 2}, {Async: 1, Compress: true}, {Index: 3}}
	chunkSizes := []int{0, 1, 2, 3}
	if c.Tier == "thorough" {
		depth, maxBatch = 2, 3
		cfgs = append(cfgs, Cfg{Index: 1, Lower: true, MapRev: true})
		chunkSizes = []int{0, 1, 2, 3, 4}
	}
	base := []Op{
		{Op: "ins", V: 0, K: 0},
		{Op: "ins", V: 1, K: 2},
		{Op: "ins", V: 2, K: 3},
		{Op: "del", Slot: 0},
		{Op: "upd", Slot: 0, V: 2, K: 4},
		{Op: "reopen"},
	}
	bs := batches(maxBatch)
	if maxBatch < 3 {
		// quick: additionally every triple in which two members are distinct objects sharing the
		// uuid of a stored object (the second version must be checked against the batch as well)
		menu := memberMenu()
		var same []Mem
		for _, m := range menu {
			if m.Kind == "slot" && m.Slot == 0 {
				same = append(same, m)
			}
		}
		for _, a := range same {
			for _, b := range same {
				for _, o := range menu {
					bs = append(bs, []Mem{o, a, b}, []Mem{a, o, b}, []Mem{a, b, o})
				}
			}
		}
	}
	opt := ObsOpt{Ordered: true}
	for _, cfg := range cfgs {
		cfg := cfg
		ord := func(p string) bool { return indexedUnder(cfg, p) }
		e := &Explorer{C: c, Cfg: cfg, Prop: "C07", Alphabet: base, Depth: depth, MaxLive: 3, Collect: true, NoShard: true}
		e.Run()
		n := 0
		for _, st := range e.States {
			for _, b := range bs {
				var ops []Op
				ops = append(ops, Op{Op: "many", Batch: b})
				if len(b) >= 2 {
					for _, cs := range chunkSizes {
						ops = append(ops, Op{Op: "bulk", Batch: b, CSize: cs})
					}
				}
				for _, op := range ops {
					n++
					if n%c.NShards != c.Shard {
						continue
					}
					if c.Expired() {
						c.Count("depth_incomplete", 1)
						return
					}
					op := op
					applicable := true
					res := RunPath(cfg, "C07", st, func(w *World) {
						if !w.Applicable(op) {
							applicable = false
							return
						}
						w.Viol = nil
						before := w.Observe(opt, ord)
						fsBefore := fsDigest(w)
						mBefore := len(w.M.Objs)
						mKey := jsonOf(w.M.Objs)
						w.Apply(op)
						if len(w.Viol) > 0 {
							return
						}
						unchangedExpected := jsonOf(w.M.Objs) == mKey && len(w.M.Objs) == mBefore
						after := w.Observe(opt, ord)
						// (a batch that re-saves objects with their own values succeeds and changes no value:
						// that is not a failed batch, and it may legitimately move ties inside an index)
						if unchangedExpected && op.Op == "many" && (w.LastClass != eOK || len(op.Batch) == 0) {
							// a failed (or empty) batch: nothing changes
							if before != after {
								w.fail("failed-batch-visible|"+diffKind(before, after), "a batch that stored nothing changed observable state:\n"+firstDiff(before, after))
								return
							}
							if w.Cfg.Async == 0 && fsDigest(w) != fsBefore {
								w.fail("failed-batch-files", "a batch that stored nothing changed the files of the collection")
								return
							}
						}
						// success or failure: every read agrees with the reference afterwards
						w.SweepBasic()
						w.SearchSweep(false)
					})
					if !applicable {
						continue
					}
					c.Count("evaluations", 1)
					c.Count("transitions", 1)
					c.Count("paths_replayed", 1)
					c.Distinct("distinct_nontrivial", cfg.String()+jsonOf(st)+jsonOf(op))
					for _, v := range res.W.Viol {
						c.Violation(v)
					}
				}
			}
		}
	}
	c.Sample(map[string]interface{}{"batch": bs[len(bs)/2], "chunk_sizes": chunkSizes})
	runC07Long(c)
	c.Meta(map[string]interface{}{
		"rule":    "(long batches: batches of 5 and 8 (thorough 5..12) objects with no offender or one offender - duplicate of the first member, of the previous member, of a stored object, or invalid - at every position, through InsertOrUpdateMany and through InsertOrUpdateBulk with every chunk size 1..n+1, on collections holding 1 or 4 objects: (n, error class) = fold of atomic chunks, stored set, Count, unique search, Control, again after Close and Open.) on every base state (BFS to the stated depth) every batch of size 0..max over the member menu {fresh, fresh colliding on K / on N, update of a stored object, update onto another object's key, invalid after Transform, wrong type, the same pointer again} at every position is passed to InsertOrUpdateMany, and (size >= 2) to InsertOrUpdateBulk with every chunk size; (n, err) = reference fold; a batch that stored nothing leaves the observation vector and the files unchanged; full sweep afterwards. Non-trivial = distinct (state, batch, chunk size).",
		"batches": len(bs), "max_batch": maxBatch, "chunk_sizes": chunkSizes, "configs": cfgs, "base_depth": depth,
	})
}

// fsDigest hashes the object files and schema of the collection (names renamed by slot).
func fsDigest(w *World) string {
	s := ""
	snap := w.FS.Snapshot()
	for _, p := range w.FS.Paths("/") {
		s += fmt.Sprintf("%s=%x;", w.rename(p), fnvBytes(snap[p]))
	}
	return s
}
