package main

import (
	"fmt"
	"sort"
	"strings"

	"github.com/0xrawsec/sod"
	"github.com/0xrawsec/sod/zzverif/vfs"
	"github.com/0xrawsec/sod/zzverif/vrt"
)

func init() { drivers["C10"] = runC10 }

// filesVsModel compares the decoded object files with the model.
// mode "all": every model object is on disk with its accepted value and nothing else;
// mode "nodeleted": only requires that no object absent from the model has a file.
func (w *World) filesVsModel(mode string) []string {
	var out []string
	dir := w.collDir()
	files, bad := decodeFiles(w.FS, dir, w.Cfg)
	if len(bad) > 0 {
		out = append(out, fmt.Sprintf("%d undecodable object files", len(bad)))
	}
	for u, f := range files {
		m, ok := w.M.Objs[u]
		if !ok {
			out = append(out, "a file exists for "+w.rename(u)+" which is not stored (deleted or never accepted)")
			continue
		}
		if mode == "all" && jsonOf(f) != jsonOf(m) {
			out = append(out, "the file of "+w.rename(u)+" does not hold its last accepted value")
		}
	}
	if mode == "all" {
		for u := range w.M.Objs {
			if _, ok := files[u]; !ok {
				out = append(out, "no file for the accepted object "+w.rename(u))
			}
		}
	}
	sort.Strings(out)
	return out
}

// filesVsModel2: the same for the second collection (mode "all"): every accepted object of the
// second collection has a file holding its accepted version, deleted ones have none.
func (w *World) filesVsModel2() []string {
	var out []string
	if !w.Two {
		return nil
	}
	onDisk := map[string]string{}
	for _, p := range w.FS.Paths(w.Root) {
		base := p[strings.LastIndex(p, "/")+1:]
		if strings.HasSuffix(p, "/") || strings.HasPrefix(base, ".") || len(base) < 36 || strings.HasPrefix(base, "schema") {
			continue
		}
		u := base[:36]
		if _, mine := w.M2[u]; !mine && !w.Dead2[u] {
			continue
		}
		data, _ := w.FS.Get(p)
		var g Wide2
		if err := decodeMaybeGz(data, w.Cfg.Compress, &g); err != nil {
			out = append(out, "an object file of the second collection cannot be decoded")
			continue
		}
		onDisk[u] = fmt.Sprintf("%d|%s", g.A, g.K)
	}
	for u, m := range w.M2 {
		if onDisk[u] != fmt.Sprintf("%d|%s", m.A, m.K) {
			out = append(out, "second collection: the accepted version of an object is not on disk")
		}
	}
	for u := range w.Dead2 {
		if _, ok := onDisk[u]; ok {
			out = append(out, "second collection: a deleted object has a file")
		}
	}
	sort.Strings(out)
	return out
}

// secondHandle opens a second handle on a copy of the directory and checks that it sees the model.
func (w *World) secondHandle(what string) {
	live, liveFS := w.DB, w.FS
	two := w.Two
	if what == "flushallc" {
		// FlushAllAndCommit is a barrier for its own collection only
		w.Two = false
	}
	defer func() { w.Two = two }()
	cp := w.FS.Clone()
	vfs.Cur = cp
	w.FS = cp
	w.DB = sod.Open(w.Root)
	if _, err := w.DB.Schema(&Rec{}); err != nil {
		w.fail("second-handle-load|"+what, "a second handle opened after "+what+" cannot load the collection: "+err.Error())
	} else {
		n := len(w.Viol)
		w.SweepBasic()
		w.SearchSweep(false)
		for i := n; i < len(w.Viol); i++ {
			w.Viol[i].Sig = "C10|second-handle|" + what + "|" + strings.TrimPrefix(w.Viol[i].Sig, "C10|")
			w.Viol[i].What = "a second handle opened after " + what + ": " + w.Viol[i].What
		}
	}
	w.DB, w.FS = live, liveFS
	vfs.Cur = liveFS
}

func alphabetC10(cfg Cfg) []Op {
	return []Op{
		{Op: "ins", V: 1, K: 0},
		{Op: "ins", V: 2, K: 2},
		{Op: "ins", V: 3, K: 3},
		{Op: "upd", Slot: 0, V: 2, K: 0},
		{Op: "upd", Slot: 1, V: 0, K: 4},
		{Op: "del", Slot: 0},
		{Op: "del", Slot: 1},
		{Op: "many", Batch: []Mem{{Kind: "fresh", V: 0, K: 3}, {Kind: "slot", Slot: 0, V: 3, K: 0}}},
		{Op: "tick"},
		{Op: "flushall"},
		{Op: "flushallc"},
		{Op: "flush", Slot: 0},
		{Op: "flushc", Slot: 1},
		{Op: "reopen"},
		{Op: "reopennc"},
		{Op: "repair"},
		{Op: "sdel", Field: "A", Cmp: ">=", Probe: 2},
	}
}

func runC10(c *Ctx) {
	depth := 3
	cfgs := []Cfg{{Async: 1}, {Async: 2}, {Async: 3}, {Async: 1, Lower: true, Ext: ".v1.obj"}}
	if c.Tier == "thorough" {
		depth = 5
		cfgs = append(cfgs, Cfg{Async: 1, Cache: true, Compress: true}, Cfg{Async: 2, Index: 2, MapRev: true})
	}
	// (A) sequential histories with explicit clock ticks; the last two runs hold a second
	// collection created from the same Schema value
	type runA struct {
		cfg Cfg
		two bool
	}
	var runs []runA
	for _, cfg := range cfgs {
		runs = append(runs, runA{cfg, false})
	}
	runs = append(runs, runA{Cfg{Async: 1}, true}, runA{Cfg{Async: 3}, true})
	for _, ra := range runs {
		cfg := ra.cfg
		worldTwo = ra.two
		thr, timeout := cfg.asyncParams()
		timeoutTicks := int(timeout/step) + 2
		alpha := alphabetC10(cfg)
		if ra.two {
			alpha = []Op{
				{Op: "ins", V: 0, K: 0}, {Op: "ins", V: 1, K: 2}, {Op: "upd", Slot: 0, V: 3, K: 0}, {Op: "del", Slot: 0}, {Op: "tick"}, {Op: "flushallc"}, {Op: "reopen"},
				{Op: "ins2", V: 1}, {Op: "ins2", V: 2}, {Op: "upd2", V: 3}, {Op: "del2"},
			}
		}
		e := &Explorer{C: c, Cfg: cfg, Prop: "C10", Alphabet: alpha, Depth: depth, MaxLive: 3}
		e.Check = func(w *World) {
			last := Op{}
			if len(w.Path) > 0 {
				last = w.Path[len(w.Path)-1]
			}
			// visibility at once on the live handle
			w.SweepBasic()
			w.SearchSweep(false)
			if len(w.Viol) > 0 {
				return
			}
			// a deleted object never (re)appears on disk
			if pr := w.filesVsModel("nodeleted"); len(pr) > 0 {
				w.fail("deleted-on-disk|after="+last.Op, "after "+last.Op+": "+strings.Join(pr, "; "))
				return
			}
			// barriers
			switch last.Op {
			case "flushall":
				if pr := w.filesVsModel("all"); len(pr) > 0 {
					w.fail("flushall-incomplete", "FlushAll returned but: "+strings.Join(pr, "; "))
					return
				}
			case "flushallc", "reopen", "reopennc":
				if pr := w.filesVsModel("all"); len(pr) > 0 {
					w.fail("barrier-incomplete|"+last.Op, last.Op+" returned but: "+strings.Join(pr, "; "))
					return
				}
				w.secondHandle(last.Op)
				if len(w.Viol) > 0 {
					return
				}
			}
			c.Count("evaluations", 1)
		}
		// deadlines: from every new state, let time pass without any call
		e.OnNew = func(w *World, path []Op) {
			pending := 0
			for _, p := range w.filesVsModel("all") {
				if strings.HasPrefix(p, "no file") || strings.HasPrefix(p, "the file of") {
					pending++
				}
			}
			need := timeoutTicks
			what := fmt.Sprintf("timeout (%v) elapsed", timeout)
			if timeout > 100*step {
				// timeout practically infinite: only the threshold applies
				if pending < thr && len(w.filesVsModel2()) < thr {
					return
				}
				need = 2
				what = fmt.Sprintf("pending count reached the threshold (%d)", thr)
			}
			pending2 := len(w.filesVsModel2())
			vrt.Tick(need)
			if w.Two && (timeout <= 100*step || pending2 >= thr) {
				if pr := w.filesVsModel2(); len(pr) > 0 {
					w.fail("deadline-missed|second", fmt.Sprintf("%s and %d clock steps passed without any further call, but: %s", what, need, strings.Join(pr, "; ")))
					return
				}
			}
			if timeout > 100*step && pending < thr {
				// only the second collection had reached its threshold
				return
			}
			if pr := w.filesVsModel("all"); len(pr) > 0 {
				w.fail("deadline-missed", fmt.Sprintf("%s and %d clock steps passed without any further call, but: %s", what, need, strings.Join(pr, "; ")))
				return
			}
			// and the handle still agrees with the model, a second handle too after Close
			w.SweepBasic()
			if len(w.Viol) > 0 {
				return
			}
			if err := w.DB.Close(); err != nil {
				w.fail("close-err", "Close failed: "+err.Error())
				return
			}
			if pr := w.filesVsModel("all"); len(pr) > 0 {
				w.fail("barrier-incomplete|close", "Close returned but: "+strings.Join(pr, "; "))
				return
			}
			w.secondHandle("close")
			if len(w.M.Objs) > 0 {
				c.Distinct("distinct_nontrivial", cfg.String()+jsonOf(path))
			}
		}
		e.Run()
	}
	worldTwo = false
	// (B) relative timing of the flusher versus foreground calls
	bound := 2
	progs := [][]Call{
		{{Name: "ins", V: 2, K: 3}, {Name: "del", Slot: 2}},
		{{Name: "ins", V: 2, K: 3}, {Name: "ins", V: 3, K: 4}},
		{{Name: "upd", Slot: 0, V: 3, K: 0}, {Name: "del", Slot: 0}},
		{{Name: "del", Slot: 0}, {Name: "ins", V: 3, K: 4}},
		{{Name: "upd", Slot: 1, V: 0, K: 4}, {Name: "flushallc"}},
		{{Name: "ins", V: 2, K: 3}, {Name: "close"}},
		{{Name: "delall"}, {Name: "ins", V: 0, K: 3}},
	}
	if c.Tier == "thorough" {
		bound = 3
	}
	item := 0
	for _, cfg := range cfgs {
		if cfg.Async == 3 && c.Tier == "quick" {
			continue
		}
		for _, pending := range []bool{true, false} {
			for pi, th := range progs {
				item++
				if item%c.NShards != c.Shard {
					continue
				}
				if c.Expired() {
					c.Count("depth_incomplete", 1)
					return
				}
				_, timeout := cfg.asyncParams()
				setup := []Op{{Op: "ins", V: 1, K: 0}, {Op: "ins", V: 2, K: 2}}
				if !pending {
					setup = append(setup, Op{Op: "flushallc"})
				}
				prog := Prog{Cfg: cfg, Setup: setup, Threads: [][]Call{th}, Ticks: 0, TrackSlots: true}
				reported := false
				var last *ExecResult
				st := exploreSchedules(bound, 200000, func(prefix []int) *vrt.Exec {
					last = runProg(prog, prefix, bound, func(w *World, r *ExecResult) {
						// bring the reference up to date with what the client did (single client: program order)
						for i := range r.Hist {
							h := &r.Hist[i]
							if got := modelStep(w.M, w.Slots, h.Call, h); got != h.Res {
								r.Notes = append(r.Notes, fmt.Sprintf("call %s returned %s, reference says %s", jsonOf(h.Call), h.Res, got))
							}
						}
						closed := false
						for _, cl := range th {
							if cl.Name == "close" {
								closed = true
							}
						}
						if !closed && timeout < 100*step {
							vrt.Tick(int(timeout/step) + 2)
							if pr := w.filesVsModel("all"); len(pr) > 0 {
								r.Notes = append(r.Notes, "deadline: "+strings.Join(pr, "; "))
							}
						}
						if pr := w.filesVsModel("nodeleted"); len(pr) > 0 {
							r.Notes = append(r.Notes, "deleted: "+strings.Join(pr, "; "))
						}
						if !closed {
							if err := w.DB.Close(); err != nil {
								r.Notes = append(r.Notes, "close: "+err.Error())
							}
						}
						vrt.Quiesce()
						if pr := w.filesVsModel("all"); len(pr) > 0 {
							r.Notes = append(r.Notes, "after Close: "+strings.Join(pr, "; "))
						}
					})
					return last.X
				}, func(x *vrt.Exec, choices []int) bool {
					c.Count("schedules", 1)
					c.Count("evaluations", 1)
					c.Count("transitions", x.NPoints+1)
					for _, p := range x.Panics {
						c.Violation(Violation{Sig: "C10|panic|" + normPanic(p.Value+" @ "+sodFrame(p.Stack)), What: "a thread panicked: " + p.Value + "\n" + trimStack(p.Stack), Cfg: cfg, More: map[string]interface{}{"program": prog, "schedule": choices}})
						return false
					}
					if x.Horizon {
						c.Violation(Violation{Sig: "C10|timing|no-quiescence", What: fmt.Sprintf("the execution never quiesces: a thread keeps running without parking, or calls stay blocked after the tick budget: %v", x.Blocked), Cfg: cfg, More: map[string]interface{}{"program": prog, "schedule": choices}})
						return false
					}
					if x.Deadlock {
						c.Count("deadlocks_left_to_C09", 1)
						return true
					}
					if len(last.Notes) > 0 && !reported {
						reported = true
						kind := strings.SplitN(last.Notes[0], ":", 2)[0]
						c.Violation(Violation{Sig: fmt.Sprintf("C10|timing|%s|prog=%d", kind, pi), What: "with this timing of the background writer: " + strings.Join(last.Notes, " | "), Cfg: cfg, More: map[string]interface{}{"program": prog, "schedule": choices}})
					}
					return true
				})
				c.Count("programs", 1)
				c.Count("paths_replayed", st.Execs)
				if st.Truncated {
					c.capHit = true
					c.Count("programs_truncated", 1)
				}
				c.Distinct("states", "prog"+cfg.String()+fmt.Sprint(pending, pi))
				if st.Execs > 1 {
					c.Distinct("distinct_nontrivial", "prog"+cfg.String()+fmt.Sprint(pending, pi))
				}
			}
		}
	}
	runC10Long(c)
	runBigPending(c, "C10")
	c.Meta(map[string]interface{}{
		"rule":    "(long histories: every sequence of length 6 (thorough 8) over {insert, update the oldest live object, delete it, one clock step} under thresholds 2, 3, 5 (1..7) x {timeout 200ms, practically infinite} x compression: visibility through All/Exist/Get and no file for a deleted object after every call; by the deadline (timeout, or threshold once enough writes are pending) every accepted version is on disk without a further call; FlushAllAndCommit and Close are barriers; a new handle agrees. Thousands of pending writes (9000; thorough up to 20000): FlushAllAndCommit and Close put every one on disk. Several collections: two collections created from one Schema value, threshold+1 writes each in three orders: both meet the deadline, Close completes both.) (A) BFS over histories up to the depth (inserts, updates, deletes of pending objects, batch, search-delete, explicit clock ticks, FlushAll, FlushAllAndCommit, Close+Open with and without Create as first call, Repair) under three threshold/timeout settings: after every history the live handle equals the reference (visibility), no deleted object has a file, barriers (FlushAll / FlushAllAndCommit / Close) leave files = reference and a second handle on a copy of the directory sweeps = reference; from every new state the virtual clock alone advances past the timeout (or the threshold is met) and the files must equal the reference without any further call, then Close and a second handle. (B) client programs against the background writer: every schedule and tick placement within the deviation bound; same deadline / deleted-never-on-disk / Close oracles, no thread panic. Virtual time only.",
		"configs": cfgs, "depth": depth, "timing_programs": len(progs),
	})
}
