package main

import (
	"errors"
	"fmt"
	"reflect"
	"sort"
	"strings"
	"time"

	"github.com/0xrawsec/sod"
	"github.com/0xrawsec/sod/zzverif/vfs"
	"github.com/0xrawsec/sod/zzverif/vrt"

	saddfield "verif/harness/shapes/addfield"
	sbase "verif/harness/shapes/base"
	sdeep "verif/harness/shapes/deep"
	sdeepchg "verif/harness/shapes/deepchg"
	sdelfield "verif/harness/shapes/delfield"
	snestedchg "verif/harness/shapes/nestedchg"
	srenamed "verif/harness/shapes/renamed"
	sreordered "verif/harness/shapes/reordered"
	sretype64 "verif/harness/shapes/retype64"
	sretypestr "verif/harness/shapes/retypestr"
	stagadded "verif/harness/shapes/tagadded"
	stagchanged "verif/harness/shapes/tagchanged"
	staglower "verif/harness/shapes/taglower"
	stagremoved "verif/harness/shapes/tagremoved"
	stagupper "verif/harness/shapes/tagupper"
	stwonest "verif/harness/shapes/twonest"
	stwoval "verif/harness/shapes/twoval"
	svalnest "verif/harness/shapes/valnest"
)

func init() { drivers["C17"] = runC17 }

type shapeV struct {
	Name   string
	New    func(int) sod.Object
	Zero   func() sod.Object
	ProbeA func() interface{}
	Fields map[string]string // field path -> Go type (own walk, not sod's)
	Cons   map[string]string // field path -> sorted constraint tags
}

var shapeVariants = []*shapeV{
	{Name: "base", New: sbase.New, Zero: sbase.Zero, ProbeA: sbase.ProbeA},
	{Name: "addfield", New: saddfield.New, Zero: saddfield.Zero, ProbeA: saddfield.ProbeA},
	{Name: "delfield", New: sdelfield.New, Zero: sdelfield.Zero, ProbeA: sdelfield.ProbeA},
	{Name: "retype64", New: sretype64.New, Zero: sretype64.Zero, ProbeA: sretype64.ProbeA},
	{Name: "retypestr", New: sretypestr.New, Zero: sretypestr.Zero, ProbeA: sretypestr.ProbeA},
	{Name: "renamed", New: srenamed.New, Zero: srenamed.Zero, ProbeA: srenamed.ProbeA},
	{Name: "reordered", New: sreordered.New, Zero: sreordered.Zero, ProbeA: sreordered.ProbeA},
	{Name: "valnest", New: svalnest.New, Zero: svalnest.Zero, ProbeA: svalnest.ProbeA},
	{Name: "nestedchg", New: snestedchg.New, Zero: snestedchg.Zero, ProbeA: snestedchg.ProbeA},
	{Name: "tagadded", New: stagadded.New, Zero: stagadded.Zero, ProbeA: stagadded.ProbeA},
	{Name: "tagremoved", New: stagremoved.New, Zero: stagremoved.Zero, ProbeA: stagremoved.ProbeA},
	{Name: "tagchanged", New: stagchanged.New, Zero: stagchanged.Zero, ProbeA: stagchanged.ProbeA},
	{Name: "twonest", New: stwonest.New, Zero: stwonest.Zero, ProbeA: stwonest.ProbeA},
	{Name: "twoval", New: stwoval.New, Zero: stwoval.Zero, ProbeA: stwoval.ProbeA},
	{Name: "taglower", New: staglower.New, Zero: staglower.Zero, ProbeA: staglower.ProbeA},
	{Name: "tagupper", New: stagupper.New, Zero: stagupper.Zero, ProbeA: stagupper.ProbeA},
	{Name: "deep", New: sdeep.New, Zero: sdeep.Zero, ProbeA: sdeep.ProbeA},
	{Name: "deepchg", New: sdeepchg.New, Zero: sdeepchg.Zero, ProbeA: sdeepchg.ProbeA},
}

// describe walks the struct independently of sod: path -> type, path -> constraints.
func describe(t reflect.Type, prefix string, fields, cons map[string]string) {
	if t.Kind() == reflect.Ptr {
		t = t.Elem()
	}
	for i := 0; i < t.NumField(); i++ {
		f := t.Field(i)
		if !f.IsExported() {
			continue
		}
		path := f.Name
		if prefix != "" {
			path = prefix + "." + f.Name
		}
		ft := f.Type
		if ft.Kind() == reflect.Ptr && ft.Elem().Kind() == reflect.Struct {
			describe(ft.Elem(), path, fields, cons)
			continue
		}
		if ft.Kind() == reflect.Struct && ft != reflect.TypeOf(time.Time{}) {
			describe(ft, path, fields, cons)
			continue
		}
		fields[path] = ft.String()
		tags := strings.Split(f.Tag.Get("sod"), ",")
		sort.Strings(tags)
		cons[path] = strings.Join(tags, ",")
	}
}

func init() {
	for _, s := range shapeVariants {
		s.Fields, s.Cons = map[string]string{}, map[string]string{}
		describe(reflect.TypeOf(s.Zero()), "", s.Fields, s.Cons)
	}
}

func sameMap(a, b map[string]string) bool {
	if len(a) != len(b) {
		return false
	}
	for k, v := range a {
		if b[k] != v {
			return false
		}
	}
	return true
}

type collOp struct {
	Name string
	Run  func(db *sod.DB, sh *shapeV, stored []string) error
	// okErr: errors that are fine on a compatible collection
	okErr func(err error) bool
}

func collOps() []collOp {
	notFound := func(err error) bool { return isNotFoundClass(classify(err)) }
	first := func(stored []string) string {
		if len(stored) > 0 {
			return stored[0]
		}
		return NeverUUID
	}
	return []collOp{
		{"Schema", func(db *sod.DB, sh *shapeV, st []string) error { _, err := db.Schema(sh.Zero()); return err }, nil},
		{"Get", func(db *sod.DB, sh *shapeV, st []string) error {
			o := sh.Zero()
			o.Initialize(first(st))
			_, err := db.Get(o)
			return err
		}, notFound},
		{"GetByUUID", func(db *sod.DB, sh *shapeV, st []string) error {
			_, err := db.GetByUUID(sh.Zero(), first(st))
			return err
		}, notFound},
		{"Exist", func(db *sod.DB, sh *shapeV, st []string) error {
			o := sh.Zero()
			o.Initialize(first(st))
			_, err := db.Exist(o)
			return err
		}, nil},
		{"Count", func(db *sod.DB, sh *shapeV, st []string) error { _, err := db.Count(sh.Zero()); return err }, nil},
		{"All", func(db *sod.DB, sh *shapeV, st []string) error { _, err := db.All(sh.Zero()); return err }, nil},
		{"Iterator", func(db *sod.DB, sh *shapeV, st []string) error { _, err := db.Iterator(sh.Zero()); return err }, nil},
		{"AssignIndex", func(db *sod.DB, sh *shapeV, st []string) error {
			var t []string
			return db.AssignIndex(sh.Zero(), "B", &t)
		}, nil},
		{"Search", func(db *sod.DB, sh *shapeV, st []string) error {
			s := db.Search(sh.Zero(), "A", "=", sh.ProbeA())
			_, err := s.Collect()
			return firstErr(s.Err(), err)
		}, nil},
		{"SearchUnindexed", func(db *sod.DB, sh *shapeV, st []string) error {
			s := db.Search(sh.Zero(), "In.Lvl", "!=", reflect.ValueOf(sh.New(3)).Elem().FieldByName("In").Interface()) // wrong-typed on purpose? no: see below
			_ = s
			s2 := db.Search(sh.Zero(), "B", "~=", "^b")
			_, err := s2.One()
			if sod.IsNoObjectFound(err) {
				err = nil
			}
			return firstErr(s2.Err(), err)
		}, nil},
		{"InsertOrUpdate", func(db *sod.DB, sh *shapeV, st []string) error { return db.InsertOrUpdate(sh.New(7)) }, nil},
		{"InsertOrUpdateMany", func(db *sod.DB, sh *shapeV, st []string) error {
			_, err := db.InsertOrUpdateMany(sh.New(8), sh.New(9))
			return err
		}, nil},
		{"InsertOrUpdateBulk", func(db *sod.DB, sh *shapeV, st []string) error {
			ch := make(chan sod.Object, 1)
			ch <- sh.New(10)
			close(ch)
			_, err := db.InsertOrUpdateBulk(ch, 1)
			return err
		}, nil},
		{"Delete", func(db *sod.DB, sh *shapeV, st []string) error {
			o := sh.Zero()
			o.Initialize(first(st))
			return db.Delete(o)
		}, nil},
		{"SearchDelete", func(db *sod.DB, sh *shapeV, st []string) error {
			s := db.Search(sh.Zero(), "B", "=", "b1")
			if s.Err() != nil {
				return s.Err()
			}
			return s.Delete()
		}, nil},
		{"DeleteAll", func(db *sod.DB, sh *shapeV, st []string) error { return db.DeleteAll(sh.Zero()) }, nil},
		{"Commit", func(db *sod.DB, sh *shapeV, st []string) error { return db.Commit(sh.Zero()) }, nil},
		{"FlushAll", func(db *sod.DB, sh *shapeV, st []string) error { return db.FlushAll(sh.Zero()) }, nil},
		{"FlushAllAndCommit", func(db *sod.DB, sh *shapeV, st []string) error { return db.FlushAllAndCommit(sh.Zero()) }, nil},
		{"Repair", func(db *sod.DB, sh *shapeV, st []string) error { return db.Repair(sh.Zero()) }, nil},
		{"Create", func(db *sod.DB, sh *shapeV, st []string) error { return db.Create(sh.Zero(), sod.DefaultSchema) }, nil},
	}
}

func treeDigest(f *vfs.FS) string {
	s := ""
	snap := f.Snapshot()
	for _, p := range f.Paths("/") {
		s += fmt.Sprintf("%s=%x;", p, fnvBytes(snap[p]))
	}
	return s
}

func runC17(c *Ctx) {
	ops := collOps()
	item := 0
	// ---- part 1: (stored shape, current shape) pairs ----------------------------------------
	for _, stored := range shapeVariants {
		for _, nobjv := range []int{0, 2, 102} {
			// 102 = two objects plus an orphan object file the index does not know (an index that
			// is out of sync must not mask the structure change); only used for incompatible pairs
			nobj, orphan := nobjv%100, nobjv >= 100
			// database written with the stored shape
			var base *vfs.FS
			var uuids []string
			vrt.Run(vrt.Config{Sequential: true, MaxTicks: 10}, func() {
				setGlobals(Cfg{})
				base = vfs.New()
				vfs.Cur = base
				db := sod.Open(dbRoot)
				if err := db.Create(stored.Zero(), sod.DefaultSchema); err != nil {
					panic("C17 setup: " + err.Error())
				}
				for i := 0; i < nobj; i++ {
					o := stored.New(i + 1)
					if err := db.InsertOrUpdate(o); err != nil {
						panic("C17 setup: " + err.Error())
					}
					uuids = append(uuids, o.UUID())
				}
				db.Close()
				if orphan && len(uuids) > 0 {
					dir := ""
					for _, p := range base.Paths(dbRoot) {
						if strings.HasSuffix(p, "/schema.json") {
							dir = strings.TrimSuffix(p, "/schema.json")
						}
					}
					data, _ := base.Get(dir + "/" + uuids[0] + ".json")
					base.Put(dir+"/eeeeeeee-0000-4000-8000-00000000000e.json", data)
				}
			})
			for _, cur := range shapeVariants {
				structSame := sameMap(stored.Fields, cur.Fields)
				consSame := sameMap(stored.Cons, cur.Cons)
				if orphan && structSame {
					continue
				}
				for oi, op := range ops {
					for _, later := range []bool{false, true} {
						item++
						if item%c.NShards != c.Shard {
							continue
						}
						stored, cur, op := stored, cur, op
						var viol []Violation
						fail := func(sig, what string) {
							viol = append(viol, Violation{Sig: "C17|" + sig, What: what + fmt.Sprintf("\n  stored shape %s (%d objects), current shape %s, operation %s (later=%v)", stored.Name, nobj, cur.Name, op.Name, later)})
						}
						x := vrt.Run(vrt.Config{Sequential: true, MaxTicks: 10}, func() {
							fsys := base.Clone()
							vfs.Cur = fsys
							db := sod.Open(dbRoot)
							before := treeDigest(fsys)
							if later {
								// a first operation already failed or succeeded on this handle
								db.Count(cur.Zero())
								if !structSame && treeDigest(fsys) != before {
									fail("refused-but-modified|Count", "files changed although the structure differs")
									return
								}
							}
							err := op.Run(db, cur, uuids)
							switch {
							case !structSame:
								if !errors.Is(err, sod.ErrStructureChanged) {
									fail("structure-change-not-refused|"+op.Name, fmt.Sprintf("the struct changed shape but %s returned %v instead of ErrStructureChanged", op.Name, err))
									return
								}
								if treeDigest(fsys) != before {
									fail("refused-but-modified|"+op.Name, "the operation was refused (structure changed) but files were modified")
									return
								}
								// Control and Close take no collection: they only have to leave the files alone
								db.Control()
								db.Close()
								if treeDigest(fsys) != before {
									fail("refused-but-modified|Control-Close", "Control/Close on a handle that refused the collection modified its files")
								}
							case op.Name == "Create" && !consSame:
								if !errors.Is(err, sod.ErrFieldDescModif) {
									fail("constraint-change-not-refused", fmt.Sprintf("Create with different constraints returned %v instead of ErrFieldDescModif", err))
									return
								}
								if treeDigest(fsys) != before {
									fail("refused-but-modified|Create", "Create was refused (constraints changed) but files were modified")
								}
							default:
								if err != nil && (op.okErr == nil || !op.okErr(err) || nobj > 0 && (op.Name == "Get" || op.Name == "GetByUUID")) {
									fail("compatible-refused|"+op.Name, fmt.Sprintf("compatible shapes but %s failed: %v", op.Name, err))
									return
								}
								// data preserved: the stored objects are still there unless the operation deletes
								n, cerr := db.Count(cur.Zero())
								want := nobj
								switch op.Name {
								case "InsertOrUpdate", "InsertOrUpdateBulk":
									want++
								case "InsertOrUpdateMany":
									want += 2
								case "Delete":
									if nobj > 0 {
										want--
									}
								case "SearchDelete":
									if nobj > 0 {
										want--
									}
								case "DeleteAll":
									want = 0
								}
								if cerr != nil || n != want {
									fail("compatible-data|"+op.Name, fmt.Sprintf("after %s on compatible shapes Count = (%d, %v), expected %d", op.Name, n, cerr, want))
									return
								}
								if cerr := db.Control(); cerr != nil {
									fail("compatible-control|"+op.Name, "Control fails on compatible shapes: "+cerr.Error())
								}
							}
							// extension mismatch on re-creation
							if structSame {
								// another extension, and the same extension in another letter case
								for _, ext := range []string{".other", strings.ToUpper(sod.DefaultExtension), ""} {
									other := sod.DefaultSchema
									other.Extension = ext
									d0 := treeDigest(fsys)
									if err := db.Create(cur.Zero(), other); !errors.Is(err, sod.ErrExtensionMismatch) && consSame {
										fail("extension-change-not-refused", fmt.Sprintf("Create with extension %q on a collection stored with %q returned %v instead of ErrExtensionMismatch", ext, sod.DefaultExtension, err))
									} else if treeDigest(fsys) != d0 {
										fail("refused-but-modified|Create-extension", "Create with another extension was refused but files were modified")
									}
								}
							}
						})
						for _, p := range x.Panics {
							fail("panic|"+normPanic(p.Value+" @ "+sodFrame(p.Stack)), "panic: "+p.Value+"\n"+trimStack(p.Stack))
						}
						c.Count("evaluations", 1)
						c.Count("transitions", 1)
						c.Count("paths_replayed", 1)
						key := fmt.Sprintf("%s>%s|%d|%d|%v", stored.Name, cur.Name, nobjv, oi, later)
						c.Distinct("states", key)
						if stored.Name != cur.Name {
							c.Distinct("distinct_nontrivial", key)
						}
						for _, v := range viol {
							c.Violation(v)
						}
						if item < 30 {
							c.Sample(map[string]interface{}{"stored": stored.Name, "current": cur.Name, "objects": nobj, "operation": op.Name, "later": later, "structure_same": structSame, "constraints_same": consSame})
						}
					}
				}
			}
		}
	}
	// ---- part 1b: a refused re-creation on a handle with pending asynchronous writes --------------
	// the refusal must come before anything is touched: the pending objects stay pending (no
	// file appears), and nothing is lost at Close.
	if c.Shard == 0 {
		stored := shapeVariants[0]
		for _, cur := range shapeVariants {
			for _, ext := range []string{sod.DefaultExtension, ".other"} {
				for _, cacheOn := range []bool{false, true} {
					structSame := sameMap(stored.Fields, cur.Fields)
					consSame := sameMap(stored.Cons, cur.Cons)
					if structSame && consSame && ext == sod.DefaultExtension {
						continue // compatible: covered by part 2
					}
					if !structSame {
						// a struct cannot change shape inside one process: a handle that already
						// loaded the collection never meets another shape of the same type
						continue
					}
					cur, ext, cacheOn := cur, ext, cacheOn
					var viol []Violation
					fail := func(sig, what string) {
						viol = append(viol, Violation{Sig: "C17|" + sig, What: what + fmt.Sprintf("\n  asynchronous collection of shape base with one flushed and two pending writes; Create with shape %s, extension %q, cache %v", cur.Name, ext, cacheOn)})
					}
					x := vrt.Run(vrt.Config{Sequential: true, MaxTicks: 10}, func() {
						setGlobals(Cfg{})
						fsys := vfs.New()
						vfs.Cur = fsys
						db := sod.Open(dbRoot)
						as := sod.DefaultSchema
						as.Asynchrone(100, time.Hour)
						if err := db.Create(stored.Zero(), as); err != nil {
							panic("C17 setup: " + err.Error())
						}
						o1, o2 := stored.New(1), stored.New(2)
						db.InsertOrUpdate(o1)
						if err := db.FlushAllAndCommit(stored.Zero()); err != nil {
							panic("C17 setup: " + err.Error())
						}
						o1b := stored.New(3)
						o1b.Initialize(o1.UUID())
						if err := db.InsertOrUpdate(o1b); err != nil { // pending update
							panic("C17 setup: " + err.Error())
						}
						if err := db.InsertOrUpdate(o2); err != nil { // pending insert
							panic("C17 setup: " + err.Error())
						}
						before := treeDigest(fsys)
						ns := sod.DefaultSchema
						ns.Extension = ext
						ns.Cache = cacheOn
						err := db.Create(cur.Zero(), ns)
						switch {
						case !structSame:
							if !errors.Is(err, sod.ErrStructureChanged) {
								fail("structure-change-not-refused|Create-pending", fmt.Sprintf("Create returned %v instead of ErrStructureChanged", err))
							}
						case ext != sod.DefaultExtension && consSame:
							if !errors.Is(err, sod.ErrExtensionMismatch) {
								fail("extension-change-not-refused|pending", fmt.Sprintf("Create returned %v instead of ErrExtensionMismatch", err))
							}
						case !consSame && ext == sod.DefaultExtension:
							if !errors.Is(err, sod.ErrFieldDescModif) {
								fail("constraint-change-not-refused|pending", fmt.Sprintf("Create returned %v instead of ErrFieldDescModif", err))
							}
						default:
							if err == nil {
								fail("incompatible-create-accepted|pending", "Create with other constraints and another extension succeeded")
							}
						}
						if treeDigest(fsys) != before {
							fail("refused-but-modified|Create-pending", "the re-creation was refused ("+fmt.Sprint(err)+") but files were modified: pending writes were flushed or files rewritten by a call that changed nothing")
						}
						// nothing is lost: the handle still serves both objects, Close writes them
						if n, cerr := db.Count(stored.Zero()); cerr != nil || n != 2 {
							fail("refused-create-lost-data", fmt.Sprintf("after the refused Create Count = (%d, %v), expected 2", n, cerr))
						}
						if cerr := db.Close(); cerr != nil {
							fail("refused-create-lost-data", "Close after the refused Create fails: "+cerr.Error())
						}
						db2 := sod.Open(dbRoot)
						got, gerr := db2.GetByUUID(stored.Zero(), o1.UUID())
						if gerr != nil || jsonOf(got) != jsonOf(o1b) {
							fail("refused-create-lost-data", fmt.Sprintf("after the refused Create and Close the pending update reads back as %s (%v)", jsonOf(got), gerr))
						}
						if n, cerr := db2.Count(stored.Zero()); cerr != nil || n != 2 {
							fail("refused-create-lost-data", fmt.Sprintf("after the refused Create and Close a new handle counts (%d, %v), expected 2", n, cerr))
						}
					})
					for _, p := range x.Panics {
						fail("panic|"+normPanic(p.Value+" @ "+sodFrame(p.Stack)), "panic: "+p.Value+"\n"+trimStack(p.Stack))
					}
					if x.Deadlock || x.Horizon {
						fail("stuck|Create-pending", "the refused re-creation blocked")
					}
					c.Count("evaluations", 1)
					c.Count("transitions", 1)
					key := fmt.Sprintf("pending>%s|%s|%v", cur.Name, ext, cacheOn)
					c.Distinct("states", key)
					c.Distinct("distinct_nontrivial", key)
					for _, v := range viol {
						c.Violation(v)
					}
				}
			}
		}
	}
	// ---- part 1c: settings switch with thousands of pending writes
	runBigPending(c, "C17")
	// ---- part 2: live settings changes -----------------------------------------------------------
	depth := 4
	if c.Tier == "thorough" {
		depth = 5
	}
	settings := []Op{}
	for alt := 0; alt < 8; alt++ {
		settings = append(settings, Op{Op: "settings", Alt: alt})
	}
	for _, cfg := range []Cfg{{}, {Cache: true}, {Async: 1}, {Async: 2, Cache: true}} {
		cfg := cfg
		alphabet := append([]Op{
			{Op: "ins", V: 1, K: 0},
			{Op: "ins", V: 2, K: 2},
			{Op: "upd", Slot: 0, V: 3, K: 0},
			{Op: "del", Slot: 0},
			{Op: "del", Slot: 1},
			{Op: "tick"},
			{Op: "get", Slot: 0},
			{Op: "createflip"},
		}, settings...)
		e := &Explorer{C: c, Cfg: cfg, Prop: "C17", Alphabet: alphabet, Depth: depth, MaxLive: 3}
		e.Check = func(w *World) {
			w.SweepBasic()
			w.SearchSweep(false)
			if len(w.Viol) > 0 {
				return
			}
			if pr := w.filesVsModel("nodeleted"); len(pr) > 0 {
				w.fail("settings|deleted-on-disk", strings.Join(pr, "; "))
			}
			c.Count("evaluations", 1)
		}
		e.OnNew = func(w *World, path []Op) {
			// time passes: with asynchronous writes (still or again) enabled the pending
			// writes reach the disk without any further call, whatever the settings went through
			vrt.Tick(5)
			if _, timeout := w.Cfg.asyncParams(); w.Cfg.Async != 0 && timeout < 100*step {
				if pr := w.filesVsModel("all"); len(pr) > 0 {
					w.fail("settings|deadline-missed", "asynchronous writes are enabled, the timeout elapsed (5 clock steps without any call), but: "+strings.Join(pr, "; "))
					return
				}
			}
			w.SweepBasic()
			if len(w.Viol) > 0 {
				return
			}
			if err := w.DB.Close(); err != nil {
				w.fail("settings|close-err", "Close failed: "+err.Error())
				return
			}
			if pr := w.filesVsModel("all"); len(pr) > 0 {
				w.fail("settings|lost-at-close", "after settings changes and Close: "+strings.Join(pr, "; "))
				return
			}
			w.secondHandle("close")
			nset := 0
			for _, op := range path {
				if op.Op == "settings" {
					nset++
				}
			}
			if nset > 0 && len(w.M.Objs) > 0 {
				c.Distinct("distinct_nontrivial", "settings"+cfg.String()+jsonOf(path))
			}
		}
		e.Run()
	}
	// settings changes against a running background writer
	progs := [][]Call{
		{{Name: "ins", V: 2, K: 3}, {Name: "settings", V: 0}, {Name: "ins", V: 3, K: 4}},
		{{Name: "upd", Slot: 0, V: 3, K: 0}, {Name: "settings", V: 1}, {Name: "del", Slot: 1}},
		{{Name: "settings", V: 0}, {Name: "settings", V: 4}, {Name: "ins", V: 2, K: 3}},
		{{Name: "ins", V: 2, K: 3}, {Name: "settings", V: 3}, {Name: "settings", V: 2}},
		{{Name: "settings", V: 6}, {Name: "settings", V: 2}, {Name: "ins", V: 2, K: 3}},
	}
	bound := 2
	for _, cfg := range []Cfg{{Async: 1}, {Async: 2, Cache: true}} {
		for pi, th := range progs {
			item++
			if item%c.NShards != c.Shard {
				continue
			}
			prog := Prog{Cfg: cfg, Setup: []Op{{Op: "ins", V: 1, K: 0}, {Op: "ins", V: 2, K: 2}}, Threads: [][]Call{th}, TrackSlots: true}
			reported := false
			var last *ExecResult
			st := exploreSchedules(bound, 200000, func(prefix []int) *vrt.Exec {
				last = runProg(prog, prefix, bound, func(w *World, r *ExecResult) {
					for i := range r.Hist {
						h := &r.Hist[i]
						if h.Call.Name == "settings" {
							if h.Res != "ok" {
								r.Notes = append(r.Notes, "settings: Create with new settings returned "+h.Res)
							}
							continue
						}
						if got := modelStep(w.M, w.Slots, h.Call, h); got != h.Res {
							r.Notes = append(r.Notes, fmt.Sprintf("refinement: call %s returned %s, reference says %s", jsonOf(h.Call), h.Res, got))
						}
					}
					vrt.Tick(4)
					w.SweepBasic()
					if len(w.Viol) > 0 {
						r.Notes = append(r.Notes, "reads: "+w.Viol[0].What)
					}
					if err := w.DB.Close(); err != nil {
						r.Notes = append(r.Notes, "close: "+err.Error())
					}
					vrt.Quiesce()
					if pr := w.filesVsModel("all"); len(pr) > 0 {
						r.Notes = append(r.Notes, "lost-at-close: "+strings.Join(pr, "; "))
					}
				})
				return last.X
			}, func(x *vrt.Exec, choices []int) bool {
				c.Count("schedules", 1)
				c.Count("evaluations", 1)
				c.Count("transitions", x.NPoints+1)
				for _, p := range x.Panics {
					c.Violation(Violation{Sig: "C17|settings|panic|" + normPanic(p.Value+" @ "+sodFrame(p.Stack)), What: "changing settings on a live handle killed a thread (the process would have crashed): " + p.Value + "\n" + trimStack(p.Stack), Cfg: cfg, More: map[string]interface{}{"program": prog, "schedule": choices}})
					return false
				}
				if x.Deadlock || x.Horizon {
					c.Violation(Violation{Sig: "C17|settings|stuck", What: fmt.Sprintf("calls block forever after a settings change: %v", x.Blocked), Cfg: cfg, More: map[string]interface{}{"program": prog, "schedule": choices}})
					return false
				}
				if len(last.Notes) > 0 && !reported {
					reported = true
					kind := strings.SplitN(last.Notes[0], ":", 2)[0]
					c.Violation(Violation{Sig: fmt.Sprintf("C17|settings|timing|%s", kind), What: "settings change against the running background writer: " + strings.Join(last.Notes, " | "), Cfg: cfg, More: map[string]interface{}{"program": prog, "schedule": choices}})
				}
				return true
			})
			c.Count("programs", 1)
			c.Count("paths_replayed", st.Execs)
			c.Distinct("states", "setprog"+cfg.String()+fmt.Sprint(pi))
			c.Distinct("distinct_nontrivial", "setprog"+cfg.String()+fmt.Sprint(pi))
		}
	}
	c.Meta(map[string]interface{}{
		"rule":   "(1) all ordered pairs (stored shape, current shape) over 18 struct variants that share package and type name (field added / removed / retyped / renamed / reordered, pointer vs value nesting, nested field retyped, a second and third field of an already used struct type, tag added / removed / changed, lower / upper added, a field five path components deep added / retyped) x {0, 2} stored objects x 21 operations naming the collection, as first and as later operation on the handle; pair class computed by an independent reflection walk: structure different => ErrStructureChanged and byte-identical files (also after Control and Close); same structure but different constraints => Create refused with ErrFieldDescModif; other extension => ErrExtensionMismatch; compatible => operations succeed, data preserved, Control quiet. (1b) every incompatible (shape, extension, cache) re-creation on an asynchronous handle holding one flushed object, a pending update and a pending insert: refused with the right error, no file touched (pending writes stay pending), both objects served, written by Close and read back by a new handle. (1c) 9000 (thorough 4097..20000) pending writes, then asynchronous writes switched off (with and without cache): every object on disk, Count, Control, new handle. (2) Create with each of {cache on/off} x {async off, (2, 2 steps), (100, 2 steps)} as alphabet letters in BFS histories with pending writes (refinement continues, deleted objects never on disk, nothing lost at Close, second handle agrees) and as calls of a client against the running background writer over all schedules within 2 deviations (no panic, no blocking, nothing lost). Non-trivial = pairs of different shapes; histories with a settings change on non-empty collections.",
		"shapes": len(shapeVariants), "operations": len(ops), "settings_depth": depth,
	})
}
