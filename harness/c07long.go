package main

import (
	"fmt"
	"sort"
	"strings"

	"github.com/0xrawsec/sod"
	"github.com/0xrawsec/sod/zzverif/vfs"
	"github.com/0xrawsec/sod/zzverif/vrt"
)

// Long batches. The batch enumeration of C07 works on batches of up to 3
// members; this part covers sizes the tables of Rec cannot express: a batch of n
// objects with at most one offender (invalid, unserialisable-free here: a
// duplicate of an earlier member, a duplicate of a stored object, or invalid)
// at every position, through InsertOrUpdateMany and through InsertOrUpdateBulk
// with every chunk size from 1 to n+1. The reference is the fold "every chunk is
// one atomic batch, stop at the first failing chunk".

type longBatchCase struct {
	N      int
	Pos    int    // position of the offender, -1 none
	Kind   string // dup-first | dup-prev | dup-stored | invalid
	CSize  int    // 0 = InsertOrUpdateMany
	Stored int    // objects stored before the call
}

func runLongBatch(cfg Cfg, cs longBatchCase) []Violation {
	var viol []Violation
	fail := func(sig, what string) {
		if len(viol) < 3 {
			viol = append(viol, Violation{Sig: "C07|long|" + sig, What: what + fmt.Sprintf("\n  batch of %d, offender %s at position %d, chunk size %d (0 = InsertOrUpdateMany), %d objects stored before, under %s", cs.N, cs.Kind, cs.Pos, cs.CSize, cs.Stored, cfg.String()), Cfg: cfg, More: map[string]interface{}{"case": cs}})
		}
	}
	ex := vrt.Run(vrt.Config{Sequential: true, MaxTicks: 50}, func() {
		setGlobals(cfg)
		fsys := vfs.New()
		vfs.Cur = fsys
		db := sod.Open(dbRoot)
		if err := db.Create(&Wide{}, cfg.Schema(&Wide{})); err != nil {
			fail("create", "Create failed: "+err.Error())
			return
		}
		want := map[string]string{} // K -> value class, of everything that must be stored
		for i := 0; i < cs.Stored; i++ {
			o := &Wide{A: i % 3, B: wideB(i % 3), U: i, Seq: -1 - i, K: fmt.Sprintf("stored%d", i), N: -1 - i}
			if err := db.InsertOrUpdate(o); err != nil {
				fail("setup", "insert failed: "+err.Error())
				return
			}
			want[o.K] = fmt.Sprint(o.A)
		}
		objs := make([]sod.Object, cs.N)
		ws := make([]*Wide, cs.N)
		for i := 0; i < cs.N; i++ {
			w := &Wide{A: i % 3, B: wideB(i % 3), U: i, Seq: i, K: fmt.Sprintf("m%d", i), N: i}
			if i == cs.Pos {
				switch cs.Kind {
				case "dup-first":
					w.K = "m0"
				case "dup-prev":
					w.K = fmt.Sprintf("m%d", i-1)
				case "dup-stored":
					w.K = "stored0"
				case "invalid":
					w.A = -99
				}
			}
			ws[i], objs[i] = w, w
		}
		// reference fold
		wantN, wantErr := 0, false
		chunk := cs.CSize
		if chunk <= 0 {
			chunk = cs.N
		}
		for start := 0; start < cs.N && !wantErr; start += chunk {
			end := start + chunk
			if end > cs.N {
				end = cs.N
			}
			if cs.Pos >= start && cs.Pos < end {
				wantErr = true
				break
			}
			for i := start; i < end; i++ {
				want[ws[i].K] = fmt.Sprint(ws[i].A)
			}
			wantN += end - start
		}
		var n int
		var err error
		if cs.CSize == 0 {
			n, err = db.InsertOrUpdateMany(objs...)
		} else {
			ch := make(chan sod.Object, cs.N)
			for _, o := range objs {
				ch <- o
			}
			close(ch)
			n, err = db.InsertOrUpdateBulk(ch, cs.CSize)
		}
		if wantErr != (err != nil) {
			fail("error", fmt.Sprintf("the call returned (%d, %v); an error was expected: %v", n, err, wantErr))
			return
		}
		if wantErr {
			switch {
			case strings.HasPrefix(cs.Kind, "dup") && !sod.IsUnique(err):
				fail("error-class", fmt.Sprintf("a duplicate unique value was answered with %v", err))
				return
			case cs.Kind == "invalid" && !strings.Contains(err.Error(), sod.ErrInvalidObject.Error()):
				fail("error-class", fmt.Sprintf("an invalid member was answered with %v", err))
				return
			}
		}
		if n != wantN {
			fail("count", fmt.Sprintf("the call reported n=%d, the chunks before the failing one hold %d objects", n, wantN))
			return
		}
		check := func(db *sod.DB, when string) bool {
			all, aerr := db.All(&Wide{})
			if aerr != nil {
				fail("all-err", when+": All failed: "+aerr.Error())
				return false
			}
			got := map[string]string{}
			for _, o := range all {
				w := o.(*Wide)
				if _, dup := got[w.K]; dup {
					fail("duplicate-unique", when+": two stored objects hold K="+w.K)
					return false
				}
				got[w.K] = fmt.Sprint(w.A)
			}
			if fmt.Sprint(sortedKV(got)) != fmt.Sprint(sortedKV(want)) {
				fail("stored-set", fmt.Sprintf("%s: stored objects %v, expected %v", when, sortedKV(got), sortedKV(want)))
				return false
			}
			if cnt, cerr := db.Count(&Wide{}); cerr != nil || cnt != len(want) {
				fail("count-after", fmt.Sprintf("%s: Count = (%d, %v), expected %d", when, cnt, cerr, len(want)))
				return false
			}
			for k := range want {
				if s := db.Search(&Wide{}, "K", "=", k); s.Err() != nil || s.Len() != 1 {
					fail("search-after", fmt.Sprintf("%s: Search(K = %s) finds %d objects (%v)", when, k, s.Len(), s.Err()))
					return false
				}
			}
			if cerr := db.Control(); cerr != nil && cfg.Async == 0 {
				fail("control-after", when+": Control fails: "+cerr.Error())
				return false
			}
			return true
		}
		if !check(db, "after the call") {
			return
		}
		if err := db.Close(); err != nil {
			fail("close", "Close failed: "+err.Error())
			return
		}
		check(sod.Open(dbRoot), "after Close and Open")
	})
	for _, p := range ex.Panics {
		fail("panic|"+normPanic(p.Value+" @ "+sodFrame(p.Stack)), "panic: "+p.Value+"\n"+trimStack(p.Stack))
	}
	if ex.Deadlock || ex.Horizon {
		fail("stuck", "the call blocked")
	}
	return viol
}

func sortedKV(m map[string]string) []string {
	out := make([]string, 0, len(m))
	for k, v := range m {
		out = append(out, k+"="+v)
	}
	sort.Strings(out)
	return out
}

func runC07Long(c *Ctx) {
	ns := []int{5, 8}
	cfgs := []Cfg{{}, {Cache: true}, {Async: 2}}
	if c.Tier == "thorough" {
		ns = []int{5, 6, 7, 8, 9, 12}
		cfgs = append(cfgs, Cfg{Compress: true, Lower: true, Index: 2})
	}
	item := 0
	for _, cfg := range cfgs {
		for _, n := range ns {
			for pos := -1; pos < n; pos++ {
				for _, kind := range []string{"dup-first", "dup-prev", "dup-stored", "invalid"} {
					if pos < 0 && kind != "invalid" {
						continue // no offender: one case
					}
					if pos == 0 && (kind == "dup-first" || kind == "dup-prev") {
						continue
					}
					for csize := 0; csize <= n+1; csize++ {
						for _, stored := range []int{1, 4} {
							item++
							if item%c.NShards != c.Shard {
								continue
							}
							cs := longBatchCase{N: n, Pos: pos, Kind: kind, CSize: csize, Stored: stored}
							for _, v := range runLongBatch(cfg, cs) {
								c.Violation(v)
							}
							c.Count("evaluations", 1)
							c.Count("transitions", 1)
							c.Count("paths_replayed", 1)
							key := "longbatch|" + cfg.String() + jsonOf(cs)
							c.Distinct("states", key)
							if pos >= 0 {
								c.Distinct("distinct_nontrivial", key)
							}
						}
					}
				}
			}
		}
	}
}
