package main

import (
	"encoding/json"
	"fmt"
	"github.com/0xrawsec/sod/zzverif/vfs"
	"hash/fnv"

	"github.com/0xrawsec/sod/zzverif/vrt"
)

// ---- E1: sequential explicit-state search over API histories ---------------------------

// PathResult is what replaying one history yields.
type PathResult struct {
	W    *World
	Exec *vrt.Exec
}

// RunPath replays path on a fresh world under cfg inside a sequential controlled
// execution; after the last call, after is called (checks, sweeps) while the
// world is still live.
func RunPath(cfg Cfg, prop string, path []Op, after func(w *World)) *PathResult {
	var w *World
	x := vrt.Run(vrt.Config{Sequential: true, MaxTicks: 1000}, func() {
		w = NewWorld(cfg, prop)
		for _, op := range path {
			w.Apply(op)
		}
		if after != nil {
			after(w)
		}
	})
	res := &PathResult{W: w, Exec: x}
	if len(x.Panics) > 0 && w != nil {
		p := x.Panics[0]
		w.Viol = append(w.Viol, Violation{Sig: prop + "|panic|" + p.Name + "|" + firstLine(p.Value), What: fmt.Sprintf("panic in thread %s: %s\n%s", p.Name, p.Value, trimStack(p.Stack)), Cfg: cfg, Path: append([]Op{}, w.Path...)})
	}
	if x.Deadlock || x.Horizon {
		w.Viol = append(w.Viol, Violation{Sig: prop + "|stuck", What: fmt.Sprintf("execution blocked: %v", x.Blocked), Cfg: cfg, Path: append([]Op{}, w.Path...)})
	}
	return res
}

func firstLine(s string) string {
	for i := 0; i < len(s); i++ {
		if s[i] == '\n' {
			return s[:i]
		}
	}
	if len(s) > 120 {
		return s[:120]
	}
	return s
}

func trimStack(s string) string {
	if len(s) > 3000 {
		return s[:3000] + "..."
	}
	return s
}

// StateKey is the canonical key of the state reached by a world: the whole handle
// (every private field, via reflection), the file system, the model and the
// thread phase, with uuids renamed by slot.
func (w *World) StateKey() string {
	d := dumpValue(w.DB)
	fsd := ""
	snap := w.FS.Snapshot()
	for _, p := range w.FS.Paths("/") {
		fsd += p + "=" + fmt.Sprintf("%x", fnvBytes(snap[p])) + ";"
	}
	md := ""
	for _, u := range w.M.UUIDs() {
		md += u + "=" + jsonOf(w.M.Objs[u]) + ";"
	}
	dead := fmt.Sprint(setKeys(w.Dead))
	return w.rename(fmt.Sprintf("%s|%s|%s|%s|%d|%v", d, fsd, md, dead, len(w.Slots), vrt.Phases()))
}

func fnvBytes(b []byte) uint64 {
	h := fnv.New64a()
	h.Write(b)
	return h.Sum64()
}

func hashStr(s string) uint64 {
	h := fnv.New64a()
	h.Write([]byte(s))
	return h.Sum64()
}

// Explore runs the breadth-first search: alphabet over cfg up to depth; check is
// called on the live world after the last call of every explored path (it
// appends to w.Viol); per-state work (heavier sweeps) goes into onNew, called
// only when the reached state was not seen before.
type Explorer struct {
	C        *Ctx
	Cfg      Cfg
	Prop     string
	Alphabet []Op
	Depth    int
	MaxLive  int
	// Check runs after every explored path (transition-level oracle).
	Check func(w *World)
	// OnNew runs on every new state (state-level oracle); path is the history that reached it.
	OnNew func(w *World, path []Op)
	// OnNewList: further state-level oracles, each on its own fresh replay.
	OnNewList []func(w *World, path []Op)
	// NoShard: every worker explores the whole space (small spaces whose states
	// are the base of a product that the driver shards itself); only shard 0 counts.
	NoShard bool
	// Collect: remember the shortest path to every distinct state in States.
	Collect bool
	States  [][]Op
	seen    map[uint64]struct{}
	quiet   bool // this visit is replicated on every worker: only shard 0 counts it
}

func (e *Explorer) Run() {
	c := e.C
	e.seen = map[uint64]struct{}{}
	frontier := [][]Op{{}}
	// the initial state
	e.quiet = c.Shard != 0
	e.visit(nil, true)
	cfgName := e.Cfg.String()
	for depth := 1; depth <= e.Depth; depth++ {
		var next [][]Op
		idx := 0
		complete := true
		for _, p := range frontier {
			for _, op := range e.Alphabet {
				// shard on the first two letters (depth-1 paths are replayed by every worker)
				if !e.NoShard && (depth == 2 || e.Depth == 1) {
					idx++
					if idx%c.NShards != c.Shard {
						continue
					}
				}
				e.quiet = depth == 1 && e.Depth > 1 && c.Shard != 0
				if e.NoShard {
					e.quiet = c.Shard != 0
				}
				if c.Expired() {
					complete = false
					break
				}
				path := append(append(make([]Op, 0, len(p)+1), p...), op)
				isNew, ok := e.visit(path, depth < e.Depth)
				if ok && isNew {
					next = append(next, path)
				}
			}
			if !complete {
				break
			}
		}
		if !complete {
			c.Count("depth_incomplete", 1)
			break
		}
		c.Max("depth_completed|"+cfgName, depth)
		c.Max("depth_completed", depth)
		frontier = next
	}
}

// visit replays path; returns (state is new, path may be extended).
func (e *Explorer) visit(path []Op, extend bool) (bool, bool) {
	c := e.C
	applicable := true
	var key string
	live := 0
	res := RunPath(e.Cfg, e.Prop, nil, func(w *World) {
		for i, op := range path {
			if !w.Applicable(op) {
				applicable = false
				return
			}
			if i == len(path)-1 {
				w.Viol = nil // prefixes were checked when they were the last transition
			}
			w.Apply(op)
		}
		if len(w.Viol) == 0 && e.Check != nil {
			e.Check(w)
		}
		if len(w.Viol) == 0 {
			key = w.StateKey()
			live = len(w.M.Objs)
		}
	})
	if !applicable {
		return false, false
	}
	if !e.quiet {
		c.Count("transitions", 1)
		c.Count("paths_replayed", 1)
	}
	w := res.W
	if len(w.Viol) > 0 {
		for _, v := range w.Viol {
			c.Violation(v)
		}
		c.Count("paths_pruned_after_violation", 1)
		return false, false
	}
	h := hashStr(key)
	if _, ok := e.seen[h]; ok {
		return false, true
	}
	e.seen[h] = struct{}{}
	c.Distinct("states", e.Cfg.String()+key)
	if len(path) > 0 {
		c.Sample(map[string]interface{}{"cfg": e.Cfg, "history": path})
	}
	if e.Collect && (!e.quiet || e.NoShard) {
		e.States = append(e.States, path)
	}
	hooks := e.OnNewList
	if e.OnNew != nil {
		hooks = append([]func(w *World, path []Op){e.OnNew}, hooks...)
	}
	for _, hook := range hooks {
		// state-level oracle on a fresh replay of the same path
		hook := hook
		res2 := RunPath(e.Cfg, e.Prop, path, func(w *World) {
			w.Viol = nil
			hook(w, path)
		})
		c.Count("paths_replayed", 1)
		for _, v := range res2.W.Viol {
			c.Violation(v)
		}
		if len(res2.W.Viol) > 0 {
			return true, false
		}
	}
	if e.MaxLive > 0 && live > e.MaxLive {
		return true, false
	}
	return true, extend
}

func vrtTick(n int) { vrt.Tick(n) }

// RunPathOn runs f on a world opened over an existing directory (golden
// corpus): the reference model and the slots come from the entry.
func RunPathOn(cfg Cfg, prop string, fsys *vfs.FS, ent *GoldenEntry, f func(w *World)) *PathResult {
	var w *World
	x := vrt.Run(vrt.Config{Sequential: true, MaxTicks: 1000}, func() {
		w = &World{Cfg: cfg, FS: fsys, Root: dbRoot, M: NewModel(), Ever: map[string]bool{}, Dead: map[string]bool{}, prop: prop}
		w.M.UniqueP = cfg.Index == 3
		w.M.UniqueV = cfg.UniqueV()
		for u, j := range ent.Model {
			r := &Rec{}
			if err := json.Unmarshal([]byte(j), r); err != nil {
				panic(err)
			}
			r.Initialize(u)
			w.M.Objs[u] = r
			w.Ever[u] = true
		}
		w.Slots = append([]string{}, ent.Slots...)
		for _, u := range w.Slots {
			w.Ever[u] = true
			if _, ok := w.M.Objs[u]; !ok {
				w.Dead[u] = true
			}
		}
		fsys.LogOn = true
		setGlobals(cfg)
		// the deterministic id generator restarts with every execution: skip the ids
		// the run that wrote the directory may have consumed (real ids are random)
		for i := 0; i < 64; i++ {
			vrt.NextUUID()
		}
		w.open()
		if len(w.Viol) == 0 {
			f(w)
		}
	})
	res := &PathResult{W: w, Exec: x}
	for _, p := range x.Panics {
		w.Viol = append(w.Viol, Violation{Sig: prop + "|panic|" + normPanic(p.Value+" @ "+sodFrame(p.Stack)), What: "panic: " + p.Value + "\n" + trimStack(p.Stack), Cfg: cfg})
	}
	return res
}
