package main

import (
	"fmt"
	"sort"

	"github.com/0xrawsec/sod"
)

// Atom is one comparison of a query tree.
type Atom struct {
	Field string      `json:"field"`
	Cmp   string      `json:"cmp"`
	Probe interface{} `json:"probe"`
}

func (a Atom) String() string { return fmt.Sprintf("%s %s %v", a.Field, a.Cmp, a.Probe) }

// Query is a left-deep chain: first atom, then (connector, atom) pairs.
type Query struct {
	First Atom
	Rest  []Link
}

type Link struct {
	Or   bool
	Atom Atom
}

func (q Query) String() string {
	s := "(" + q.First.String() + ")"
	for _, l := range q.Rest {
		c := " AND "
		if l.Or {
			c = " OR "
		}
		s = "(" + s + c + "(" + l.Atom.String() + "))"
	}
	return s
}

// evalModel is the denotation of q on the model.
func (w *World) evalModel(q Query) map[string]bool {
	cur := w.M.search(specByPath(q.First.Field), q.First.Cmp, q.First.Probe)
	for _, l := range q.Rest {
		m := w.M.search(specByPath(l.Atom.Field), l.Atom.Cmp, l.Atom.Probe)
		if l.Or {
			cur = setOr(cur, m)
		} else {
			cur = setAnd(cur, m)
		}
	}
	return cur
}

// evalImpl evaluates q through the public API.
func (w *World) evalImpl(q Query) *sod.Search {
	s := w.DB.Search(&Rec{}, q.First.Field, q.First.Cmp, q.First.Probe)
	for _, l := range q.Rest {
		if l.Or {
			s = s.Or(l.Atom.Field, l.Atom.Cmp, l.Atom.Probe)
		} else {
			s = s.And(l.Atom.Field, l.Atom.Cmp, l.Atom.Probe)
		}
	}
	return s
}

// checkTree compares Len and the collected set of q with the model.
func (w *World) checkTree(q Query) {
	want := w.evalModel(q)
	s := w.evalImpl(q)
	if err := s.Err(); err != nil {
		w.fail("tree-err", fmt.Sprintf("query %s failed: %v", q, err))
		return
	}
	shape := "and"
	for _, l := range q.Rest {
		if l.Or {
			shape = "or"
		}
	}
	if s.Len() != len(want) {
		w.fail("tree-len|"+shape, fmt.Sprintf("query %s: Len() = %d, expected %d", q, s.Len(), len(want)))
		return
	}
	objs, err := s.Collect()
	if err != nil {
		w.fail("tree-collect-err|"+shape, fmt.Sprintf("query %s: Collect failed: %v", q, err))
		return
	}
	got := map[string]bool{}
	for _, o := range objs {
		if got[o.UUID()] {
			w.fail("tree-dup|"+shape, fmt.Sprintf("query %s returned %s twice", q, w.rename(o.UUID())))
		}
		got[o.UUID()] = true
	}
	if !setEq(got, want) {
		w.fail("tree-set|"+shape, fmt.Sprintf("query %s = %s, expected %s", q, w.rename(fmt.Sprint(setKeys(got))), w.rename(fmt.Sprint(setKeys(want)))))
	}
}

// atom menu: results that are empty, full, prefix/suffix sub-slices of the live
// index (capacity-bearing), single equal ranges, regex and unindexed scans.
func atomMenu() []Atom {
	return []Atom{
		{"A", ">=", int(0)},
		{"A", "<", int(5)},
		{"A", ">", int(-3)},
		{"S", "=", "a"},
		{"S", "<=", "a"},
		{"P", "=", int(1)},
		{"K", "~=", "^k[ab]"},
		{"In.Lvl", ">", int(0)},
		{"U16", "=", uint16(2)},
		{"A", ">=", int(-9223372036854775808)},
		{"L", "!=", "AB"},
		{"T", "<=", tabT[2]},
	}
}

// orderKey returns the normalised value of field path p for ordering checks.
func orderKey(p string, r *Rec) interface{} { return specByPath(p).get(r) }

func sortedCopy(a []string) []string {
	b := append([]string{}, a...)
	sort.Strings(b)
	return b
}
