package main

import (
	"bytes"
	"encoding/base64"
	"encoding/json"
	"fmt"
	"os"
	"sort"
	"strings"

	"github.com/0xrawsec/sod/zzverif/vfs"
)

func init() {
	drivers["C18"] = runC18
	drivers["GOLDENGEN"] = runGoldenGen
}

// ---- (a) layout invariant: an independent walk of the collection directory ---------------------

func genericJSON(data []byte) (interface{}, error) {
	dec := json.NewDecoder(bytes.NewReader(data))
	dec.UseNumber()
	var v interface{}
	err := dec.Decode(&v)
	return v, err
}

// LayoutCheck verifies the documented on-disk layout of the collection of Rec
// against the model (to be called at a point where everything is on disk).
func (w *World) LayoutCheck() {
	fail := func(sig, what string) { w.fail("layout|"+sig, what) }
	// exactly one directory for the collection, named after the type
	var dirs []string
	for _, p := range w.FS.Paths(w.Root) {
		rel := p[len(w.Root)+1:]
		if strings.HasSuffix(rel, "/") && !strings.Contains(strings.TrimSuffix(rel, "/"), "/") {
			dirs = append(dirs, strings.TrimSuffix(rel, "/"))
		} else if !strings.Contains(rel, "/") {
			fail("stray-root-file", "unexpected file at the database root: "+rel)
		}
	}
	typeName := "main.Rec"
	var dir string
	for _, d := range dirs {
		if d == typeName || (w.Cfg.Lower && d == strings.ToLower(d) && strings.ReplaceAll(d, "_", "") == strings.ToLower(typeName)) {
			dir = d
		}
	}
	if dir == "" {
		fail("dir-name", fmt.Sprintf("no directory named after the struct type %s (lower-case names: %v) among %v", typeName, w.Cfg.Lower, dirs))
		return
	}
	if !w.Cfg.Lower && dir != typeName {
		fail("dir-name", "directory "+dir+" is not the type name "+typeName)
		return
	}
	full := w.Root + "/" + dir
	ext := w.Cfg.BaseExt()
	if w.Cfg.Compress {
		ext += ".gz"
	}
	seen := map[string]bool{}
	hasSchema := false
	for _, p := range w.FS.Paths(full) {
		base := p[len(full)+1:]
		if strings.HasSuffix(base, "/") || strings.Contains(base, "/") {
			fail("subdir", "unexpected sub-directory in the collection directory: "+base)
			continue
		}
		if base == "schema.json" {
			hasSchema = true
			continue
		}
		if len(base) != 36+len(ext) || !uuidRe.MatchString(base[:36]) || base[36:] != ext {
			fail("file-name", fmt.Sprintf("entry %q is not <uuid>%s", w.rename(base), ext))
			continue
		}
		u := base[:36]
		m, ok := w.M.Objs[u]
		if !ok {
			fail("extra-file", "object file without stored object: "+w.rename(base))
			continue
		}
		seen[u] = true
		data, _ := w.FS.Get(p)
		if w.Cfg.Compress {
			if len(data) < 2 || data[0] != 0x1f || data[1] != 0x8b {
				fail("not-gzip", "compression is on but "+w.rename(base)+" is not gzip data")
				continue
			}
			d, err := gunz(data)
			if err != nil {
				fail("not-gzip", "cannot gunzip "+w.rename(base)+": "+err.Error())
				continue
			}
			data = d
		}
		got, err := genericJSON(data)
		if err != nil {
			fail("not-json", "object file is not plain JSON: "+err.Error())
			continue
		}
		want, _ := genericJSON([]byte(jsonOf(m)))
		if jsonOf(got) != jsonOf(want) {
			fail("content", fmt.Sprintf("object file %s holds %s, the plain JSON encoding of the object is %s", w.rename(base), jsonOf(got), jsonOf(want)))
		}
	}
	if !hasSchema {
		fail("no-schema", "schema.json is missing")
		return
	}
	for u := range w.M.Objs {
		if !seen[u] {
			fail("missing-file", "no file for stored object "+w.rename(u))
		}
	}
	// schema.json: persistent format
	sdata, _ := w.FS.Get(full + "/schema.json")
	sv, err := genericJSON(sdata)
	if err != nil {
		fail("schema-json", "schema.json is not JSON: "+err.Error())
		return
	}
	doc, ok := sv.(map[string]interface{})
	if !ok {
		fail("schema-json", "schema.json is not an object")
		return
	}
	for _, k := range []string{"fields", "extension", "compress", "cache", "index"} {
		if _, ok := doc[k]; !ok {
			fail("schema-key|"+k, "schema.json misses key "+k)
			return
		}
	}
	for k := range doc {
		switch k {
		case "fields", "extension", "compress", "cache", "index", "async-writes":
		default:
			fail("schema-key-unknown", "schema.json has an unknown key "+k)
		}
	}
	baseExt := w.Cfg.BaseExt()
	if doc["extension"] != baseExt || doc["compress"] != w.Cfg.Compress {
		fail("schema-settings", fmt.Sprintf("schema.json records extension=%v compress=%v, configuration is %s / %v", doc["extension"], doc["compress"], baseExt, w.Cfg.Compress))
	}
	idx, _ := doc["index"].(map[string]interface{})
	ids, _ := idx["object-ids"].(map[string]interface{})
	fields, _ := idx["fields"].(map[string]interface{})
	if idx == nil || ids == nil || fields == nil {
		fail("schema-index", "schema.json index lacks fields / object-ids")
		return
	}
	byID := map[string]string{}
	for id, u := range ids {
		us, _ := u.(string)
		if _, ok := w.M.Objs[us]; !ok {
			fail("schema-object-ids", "object-ids references an object that is not stored")
		}
		byID[id] = us
	}
	if len(ids) != len(w.M.Objs) {
		fail("schema-object-ids", fmt.Sprintf("object-ids has %d entries for %d stored objects", len(ids), len(w.M.Objs)))
	}
	fieldTypes, _ := doc["fields"].(map[string]interface{})
	for name, fv := range fields {
		f, _ := fv.(map[string]interface{})
		if f == nil {
			fail("schema-field-index", "field index "+name+" is not an object")
			continue
		}
		for _, k := range []string{"name", "cast", "constraints", "index"} {
			if _, ok := f[k]; !ok {
				fail("schema-field-key|"+k, "field index "+name+" misses key "+k)
			}
		}
		if f["name"] != name {
			fail("schema-field-name", fmt.Sprintf("field index %s is named %v", name, f["name"]))
		}
		if fieldTypes != nil {
			if _, ok := fieldTypes[name]; !ok {
				fail("schema-field-unknown", "field index on "+name+" which is not in fields")
			}
		}
		spec := specByPath(name)
		list, _ := f["index"].([]interface{})
		if len(list) != len(w.M.Objs) {
			fail("schema-field-len", fmt.Sprintf("field index %s has %d entries for %d objects", name, len(list), len(w.M.Objs)))
			continue
		}
		if spec == nil {
			continue
		}
		var prev interface{}
		for _, e := range list {
			t, _ := e.([]interface{})
			if len(t) != 2 {
				fail("schema-tuple", "index entry is not a [value, object-id] pair")
				break
			}
			u := byID[fmt.Sprint(t[1])]
			m, ok := w.M.Objs[u]
			if !ok {
				fail("schema-tuple-id", "index entry references an unknown object id")
				break
			}
			want := spec.get(m)
			got := tupleValue(t[0], want)
			if got == nil || cmp3(got, want) != 0 {
				fail("schema-tuple-value|"+name, fmt.Sprintf("index of %s holds %v for an object whose field is %v", name, t[0], want))
				break
			}
			if prev != nil && cmp3(prev, got) < 0 {
				fail("schema-order|"+name, "index of "+name+" is not in non-increasing order")
				break
			}
			prev = got
		}
	}
}

// tupleValue converts the JSON value of an index tuple to the domain of want.
func tupleValue(v interface{}, want interface{}) interface{} {
	switch want.(type) {
	case string:
		s, ok := v.(string)
		if !ok {
			return nil
		}
		return s
	case int64:
		n, ok := v.(json.Number)
		if !ok {
			return nil
		}
		i, err := n.Int64()
		if err != nil {
			return nil
		}
		return i
	case uint64:
		n, ok := v.(json.Number)
		if !ok {
			return nil
		}
		var u uint64
		if _, err := fmt.Sscan(n.String(), &u); err != nil {
			return nil
		}
		return u
	case float64:
		n, ok := v.(json.Number)
		if !ok {
			return nil
		}
		f, err := n.Float64()
		if err != nil {
			return nil
		}
		return f
	}
	return nil
}

// ---- (b) golden corpus written by the pinned release --------------------------------------------

// GoldenEntry is one directory written by the pinned release.
type GoldenEntry struct {
	Cfg     Cfg               `json:"cfg"`
	History []Op              `json:"history"`
	Files   map[string]string `json:"files"` // path relative to the root -> base64 content; "dir/" -> ""
	Model   map[string]string `json:"model"` // uuid -> JSON of the expected object
	Slots   []string          `json:"slots"`
}

type GoldenCorpus struct {
	// DirNames: "<type>|asis" / "<type>|lower" -> directory name chosen by the pinned release
	DirNames map[string]string `json:"dir_names"`
	// Descriptors: type -> field path -> "type|constraints" computed by the pinned release
	Descriptors  map[string]map[string]string `json:"descriptors"`
	PinnedCommit string                       `json:"pinned_commit"`
	Note         string                       `json:"note"`
	Entries      []GoldenEntry                `json:"entries"`
}

func goldenAlphabet() []Op {
	return []Op{
		{Op: "ins", V: 0, K: 0},
		{Op: "ins", V: 1, K: 2},
		{Op: "ins", V: 3, K: 4},
		{Op: "ins", V: 2, K: 3},
		{Op: "upd", Slot: 0, V: 2, K: 0},
		{Op: "del", Slot: 0},
		{Op: "many", Batch: []Mem{{Kind: "fresh", V: 1, K: 1}, {Kind: "fresh", V: 2, K: 3}}},
	}
}

func goldenCfgs() []Cfg {
	return []Cfg{
		{}, {Compress: true}, {Ext: ".obj"}, {Lower: true}, {Compress: true, Ext: ".obj", Lower: true},
		{Async: 1}, {Async: 2, Compress: true}, {Cache: true, Index: 1}, {Index: 2}, {Index: 2, Compress: true, Lower: true},
		{Cache: true, Async: 1, Ext: ".obj"}, {Index: 1, Ext: ".obj"},
	}
}

// runGoldenGen writes the corpus (to be run against the pinned tree:
// VERIF_REPO=<worktree of the pinned commit> GOLDEN_OUT=/verif/golden/corpus.json bin/check GOLDENGEN).
// Only final states reached without any call failing unexpectedly on the pinned
// code are recorded; the expected contents are the reference model's.
func runGoldenGen(c *Ctx) {
	out := os.Getenv("GOLDEN_OUT")
	if out == "" || c.Shard != 0 {
		c.Count("transitions", 1)
		c.Distinct("states", "none")
		c.Sample("golden generation needs GOLDEN_OUT and runs on shard 0 only")
		return
	}
	corpus := GoldenCorpus{PinnedCommit: os.Getenv("GOLDEN_COMMIT"), Note: "directories written by the pinned release through the in-memory file system (bytes produced by the pinned code); expected contents from the reference model"}
	seen := map[string]bool{}
	for _, cfg := range goldenCfgs() {
		for _, p := range append([][]Op{{}}, enumPaths(goldenAlphabet(), 3)...) {
			var entry *GoldenEntry
			res := RunPath(cfg, "GOLDEN", nil, func(w *World) {
				for _, op := range p {
					if !w.Applicable(op) {
						return
					}
					w.Apply(op)
				}
				if len(w.Viol) > 0 {
					return
				}
				if err := w.DB.Close(); err != nil {
					return
				}
				e := GoldenEntry{Cfg: cfg, History: p, Files: map[string]string{}, Model: map[string]string{}, Slots: w.Slots}
				snap := w.FS.Snapshot()
				for _, path := range w.FS.Paths(w.Root) {
					rel := path[len(w.Root)+1:]
					if strings.HasSuffix(path, "/") {
						e.Files[rel] = ""
					} else {
						e.Files[rel] = base64.StdEncoding.EncodeToString(snap[path])
					}
				}
				for u, m := range w.M.Objs {
					e.Model[u] = jsonOf(m)
				}
				entry = &e
			})
			if entry == nil || len(res.W.Viol) > 0 {
				c.Count("histories_not_recorded", 1)
				continue
			}
			// distinct final states only
			key := cfg.String() + jsonOf(entry.Model) + fmt.Sprint(len(entry.Files))
			if seen[key] {
				continue
			}
			seen[key] = true
			corpus.Entries = append(corpus.Entries, *entry)
			c.Count("transitions", len(p)+1)
			c.Distinct("states", key)
		}
	}
	corpus.DirNames = dirNames()
	corpus.Descriptors = descriptorTable()
	data, _ := json.Marshal(corpus)
	if err := os.WriteFile(out, data, 0644); err != nil {
		panic(err)
	}
	c.Count("entries", len(corpus.Entries))
	c.Sample(map[string]interface{}{"entries": len(corpus.Entries), "out": out})
}

func loadCorpus() (*GoldenCorpus, error) {
	data, err := os.ReadFile("/verif/golden/corpus.json")
	if err != nil {
		if d := os.Getenv("VERIF_DIR"); d != "" {
			data, err = os.ReadFile(d + "/golden/corpus.json")
		}
		if err != nil {
			return nil, err
		}
	}
	var c GoldenCorpus
	if err := json.Unmarshal(data, &c); err != nil {
		return nil, err
	}
	return &c, nil
}

func (e *GoldenEntry) materialise() *vfs.FS {
	f := vfs.New()
	f.PutDir(dbRoot)
	names := make([]string, 0, len(e.Files))
	for n := range e.Files {
		names = append(names, n)
	}
	sort.Strings(names)
	for _, n := range names {
		if strings.HasSuffix(n, "/") {
			f.PutDir(dbRoot + "/" + strings.TrimSuffix(n, "/"))
			continue
		}
		d, _ := base64.StdEncoding.DecodeString(e.Files[n])
		f.Put(dbRoot+"/"+n, d)
	}
	return f
}

func runC18(c *Ctx) {
	// (a) layout invariant on every state of a BFS, all configurations of the quick set
	depth := 3
	if c.Tier == "thorough" {
		depth = 5
	}
	cfgs := append([]Cfg{}, cfgQuick...)
	cfgs = append(cfgs, Cfg{Compress: true, Lower: true}, Cfg{Ext: ".v1.obj", Async: 1, Compress: true}, Cfg{Ext: "-"}, Cfg{Ext: "-", Compress: true, Cache: true}, Cfg{Ext: ".json.gz", Compress: true}, Cfg{Ext: ".gz"}, Cfg{Ext: ".gz", Compress: true, Async: 1})
	for _, cfg := range cfgs {
		cfg := cfg
		e := &Explorer{C: c, Cfg: cfg, Prop: "C18", Alphabet: alphabetMixed(cfg), Depth: depth, MaxLive: 3}
		e.Check = func(w *World) {
			if w.Cfg.Async != 0 {
				// the layout is defined for what is on disk: flush first
				if err := w.DB.FlushAllAndCommit(&Rec{}); err != nil {
					w.fail("flush-err", "FlushAllAndCommit failed: "+err.Error())
					return
				}
			}
			w.LayoutCheck()
			c.Count("evaluations", 1)
			if len(w.M.Objs) > 0 {
				c.Distinct("distinct_nontrivial", cfg.String()+w.rename(fsDigest(w)))
			}
		}
		e.Run()
	}
	// (b) golden corpus
	corpus, err := loadCorpus()
	if err != nil {
		panic("C18: cannot load the golden corpus: " + err.Error())
	}
	// field descriptors (the "fields" section of schema.json and the structure guard are made of
	// them): same paths, types and constraints as the pinned release for every shape
	if c.Shard == 0 {
		now := descriptorTable()
		for typ, want := range corpus.Descriptors {
			if typ == "Hk" || typ == "Wide" {
				continue // harness types that changed since the corpus was written are not part of the format
			}
			got := now[typ]
			paths := map[string]bool{}
			for p := range want {
				paths[p] = true
			}
			for p := range got {
				paths[p] = true
			}
			for p := range paths {
				c.Count("evaluations", 1)
				c.Distinct("states", "descriptor|"+typ+"|"+p)
				c.Distinct("distinct_nontrivial", "descriptor|"+typ+"|"+p)
				if got[p] != want[p] {
					depth := strings.Count(p, ".") + 1
					c.Violation(Violation{Sig: fmt.Sprintf("C18|descriptor-changed|%s|depth=%d", typ, depth), What: fmt.Sprintf("type %s, field path %q: the pinned release describes it as %q, the current code as %q (the fields section of schema.json changes: collections of the other version are refused or mis-read)", typ, p, want[p], got[p])})
				}
			}
		}
	}
	// directory names: the pinned release and the current code must agree for every naming type
	if c.Shard == 0 {
		now := dirNames()
		for k, want := range corpus.DirNames {
			c.Count("evaluations", 1)
			c.Distinct("states", "dirname|"+k)
			c.Distinct("distinct_nontrivial", "dirname|"+k)
			if got := now[k]; got != want {
				c.Violation(Violation{Sig: "C18|dir-name-changed|" + k[strings.Index(k, "|")+1:], What: fmt.Sprintf("the collection of type %s is stored in directory %q, the pinned release uses %q: its databases would not be found", k, got, want)})
			}
			parts := strings.SplitN(k, "|", 2)
			if parts[1] == "asis" && !strings.HasSuffix(want, "."+parts[0]) {
				c.Violation(Violation{Sig: "C18|dir-name-not-type", What: fmt.Sprintf("directory %q is not named after the struct type %s", want, parts[0])})
			}
			if parts[1] == "lower" && (want != strings.ToLower(want) || strings.ReplaceAll(want, "_", "") != strings.ToLower("main."+strings.ReplaceAll(parts[0], "_", ""))) {
				c.Violation(Violation{Sig: "C18|dir-name-not-snake", What: fmt.Sprintf("directory %q is not a lower-case snake form of the struct type %s", want, parts[0])})
			}
		}
	}
	follow := goldenAlphabet()
	follow = append(follow, Op{Op: "delall"}, Op{Op: "sdel", Field: "A", Cmp: ">=", Probe: 2}, Op{Op: "create"}, Op{Op: "createflip"})
	for ei := range corpus.Entries {
		if ei%c.NShards != c.Shard {
			continue
		}
		if c.Expired() {
			c.Count("depth_incomplete", 1)
			return
		}
		ent := &corpus.Entries[ei]
		for fi := -1; fi < len(follow); fi++ {
			if c.Tier == "quick" && fi >= 0 && (ei+fi)%3 != 0 {
				continue
			}
			var viol []Violation
			res := RunGolden(ent, func(w *World) {
				// identical contents, search behaviour and constraints
				w.SweepBasic()
				w.SearchSweep(false)
				if len(w.Viol) > 0 {
					return
				}
				if cerr := w.DB.Control(); cerr != nil {
					w.fail("golden-control", "Control fails on a directory written by the pinned release: "+cerr.Error())
					return
				}
				if fi < 0 {
					return
				}
				op := follow[fi]
				if !w.Applicable(op) {
					return
				}
				// stays loadable after further writes
				w.Apply(op)
				if len(w.Viol) > 0 {
					return
				}
				if op.Op == "createflip" || op.Op == "create" {
					// re-creation preserves the data on the live handle too, also after a write
					w.SweepBasic()
					if len(w.Slots) > 0 && len(w.M.Objs) > 0 {
						for si, u := range w.Slots {
							if m, ok := w.M.Objs[u]; ok {
								// re-save a stored object with its own values (a write after the re-creation)
								r := cloneRec(m)
								r.Initialize(u)
								if err := w.DB.InsertOrUpdate(r); err != nil {
									w.fail("write-after-recreate", fmt.Sprintf("re-saving slot %d after Create failed: %v", si, err))
								}
								break
							}
						}
					}
					if len(w.Viol) > 0 {
						return
					}
				}
				if err := w.DB.Close(); err != nil {
					w.fail("golden-close", "Close failed: "+err.Error())
					return
				}
				w.open()
				if len(w.Viol) > 0 {
					return
				}
				w.SweepBasic()
				w.SearchSweep(false)
				if len(w.Viol) == 0 {
					w.LayoutCheck()
				}
			})
			for _, v := range res.W.Viol {
				v.Sig = "C18|golden|" + strings.TrimPrefix(v.Sig, "C18|")
				v.What = "directory written by the pinned release (" + ent.Cfg.String() + ", history " + jsonOf(ent.History) + "): " + v.What
				viol = append(viol, v)
			}
			c.Count("evaluations", 1)
			c.Count("golden_cases", 1)
			c.Count("transitions", 1)
			c.Count("paths_replayed", 1)
			c.Distinct("states", fmt.Sprintf("golden%d|%d", ei, fi))
			if len(ent.Model) > 0 {
				c.Distinct("distinct_nontrivial", fmt.Sprintf("golden%d|%d", ei, fi))
			}
			for _, v := range viol {
				c.Violation(v)
			}
		}
	}
	c.Count("golden_entries", len(corpus.Entries))
	c.Meta(map[string]interface{}{
		"rule":                 "(a) in every state reached by BFS under 11 configurations (async: after FlushAllAndCommit) an independent walk checks the layout: one directory named after the struct type (lower-case snake form when lower-case names are on), schema.json plus exactly one file <uuid><ext>[.gz] per stored object and nothing else, gzip iff compression, content = plain JSON encoding of the object under the Go field names (generic decode), schema.json keys / settings / index tuples [value, object-id] with exact 64-bit values in non-increasing order and object-ids covering exactly the stored objects; (b) golden corpus: every directory written by the pinned release (all distinct final states of histories up to depth 3 under 12 configurations, committed under /verif/golden with the pinned commit id) is opened by the current code: full read and search sweep = recorded contents, Control quiet, then each follow-up call, Close, reopen, sweep and layout check.",
		"golden_pinned_commit": corpus.PinnedCommit, "depth": depth,
		"assumptions": []string{"the corpus bytes were produced by the pinned code running over the in-memory file system (the bytes are what the code hands to write(2))"},
	})
}

// RunGolden opens ent with the current code inside a sequential execution.
func RunGolden(ent *GoldenEntry, f func(w *World)) *PathResult {
	return RunPathOn(ent.Cfg, "C18", ent.materialise(), ent, f)
}
