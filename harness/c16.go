package main

import (
	"fmt"
	"regexp"
	"strings"
	"unicode/utf8"

	"github.com/0xrawsec/sod"
)

func init() {
	drivers["C16"] = runC16
}

type CaseSub4 struct {
	Leaf4 string `sod:"upper"`
}

type CaseSub3 struct {
	Leaf3 string `sod:"index,lower"`
	Sub4  *CaseSub4
}

type CaseSub2 struct {
	Leaf2 string `sod:"index,upper"`
	Sub3  CaseSub3
}

type CaseSub struct {
	Leaf string `sod:"lower"`
	Sub2 *CaseSub2
}

type CaseIn struct {
	Deep  string `sod:"index,lower"`
	Plain string `sod:"upper"`
	Sub   *CaseSub
}

type CaseEmb struct {
	EU string `sod:"index,upper"`
}

// CaseRec carries upper/lower constraints at depth 0, behind a pointer and in an
// embedded struct; indexed, unindexed and unique variants.
type CaseRec struct {
	sod.Item
	U  string   `sod:"index,upper"`
	L  string   `sod:"lower"`
	UU string   `sod:"index,unique,upper"` // three options in one tag
	LL string   `sod:"index,lower"`
	LU string   `sod:"lower,unique"` // transformer listed before unique in the tag
	NS NamedStr `sod:"upper"`        // a named string type carrying a constraint
	In *CaseIn
	CaseEmb
	Raw string `sod:"index"`
}

// NamedStr is a named string type.
type NamedStr string

type casePath struct {
	Path  string
	Upper bool
	get   func(r *CaseRec) string
}

var casePaths = []casePath{
	{"U", true, func(r *CaseRec) string { return r.U }},
	{"L", false, func(r *CaseRec) string { return r.L }},
	{"UU", true, func(r *CaseRec) string { return r.UU }},
	{"LL", false, func(r *CaseRec) string { return r.LL }},
	{"LU", false, func(r *CaseRec) string { return r.LU }},
	{"NS", true, func(r *CaseRec) string { return string(r.NS) }},
	{"In.Deep", false, func(r *CaseRec) string {
		if r.In == nil {
			return ""
		}
		return r.In.Deep
	}},
	{"In.Plain", true, func(r *CaseRec) string {
		if r.In == nil {
			return ""
		}
		return r.In.Plain
	}},
	{"CaseEmb.EU", true, func(r *CaseRec) string { return r.EU }},
	{"In.Sub.Leaf", false, func(r *CaseRec) string {
		if r.In == nil || r.In.Sub == nil {
			return ""
		}
		return r.In.Sub.Leaf
	}},
	{"In.Sub.Sub2.Leaf2", true, func(r *CaseRec) string {
		if r.In == nil || r.In.Sub == nil || r.In.Sub.Sub2 == nil {
			return ""
		}
		return r.In.Sub.Sub2.Leaf2
	}},
	{"In.Sub.Sub2.Sub3.Leaf3", false, func(r *CaseRec) string {
		if r.In == nil || r.In.Sub == nil || r.In.Sub.Sub2 == nil {
			return ""
		}
		return r.In.Sub.Sub2.Sub3.Leaf3
	}},
	{"In.Sub.Sub2.Sub3.Sub4.Leaf4", true, func(r *CaseRec) string {
		if r.In == nil || r.In.Sub == nil || r.In.Sub.Sub2 == nil || r.In.Sub.Sub2.Sub3.Sub4 == nil {
			return ""
		}
		return r.In.Sub.Sub2.Sub3.Sub4.Leaf4
	}},
}

func canonCase(upper bool, s string) string {
	if upper {
		return strings.ToUpper(s)
	}
	return strings.ToLower(s)
}

var caseAlphabet = []string{"a", "A", "ß", "ſ", "K", "İ", "ı", "Σ", "σ", "ς", "ǅ", "é", "É", "1"}

func caseStrings(maxLen int) []string {
	out := []string{""}
	cur := []string{""}
	for l := 1; l <= maxLen; l++ {
		var next []string
		for _, p := range cur {
			for _, a := range caseAlphabet {
				next = append(next, p+a)
			}
		}
		out = append(out, next...)
		cur = next
	}
	return out
}

func newCaseRec(s string, withIn bool) *CaseRec {
	r := &CaseRec{U: s, L: s, UU: s, LL: s, LU: "lu" + s, NS: NamedStr(s), Raw: s, CaseEmb: CaseEmb{EU: s}}
	if withIn {
		r.In = &CaseIn{Deep: s, Plain: s, Sub: &CaseSub{Leaf: s, Sub2: &CaseSub2{Leaf2: s, Sub3: CaseSub3{Leaf3: s, Sub4: &CaseSub4{Leaf4: s}}}}}
	}
	return r
}

func runC16(c *Ctx) {
	// (a) all code points through the real Constraints.Transform
	if c.Shard < 4 {
		lo, hi := rune(c.Shard)*0x44000, rune(c.Shard+1)*0x44000
		if hi > utf8.MaxRune+1 {
			hi = utf8.MaxRune + 1
		}
		up, low := sod.Constraints{Upper: true}, sod.Constraints{Lower: true}
		n := 0
		for r := lo; r < hi; r++ {
			if r >= 0xD800 && r <= 0xDFFF {
				continue
			}
			for _, cc := range []struct {
				c     *sod.Constraints
				upper bool
			}{{&up, true}, {&low, false}} {
				s := string(r)
				once := s
				cc.c.Transform(&once)
				twice := once
				cc.c.Transform(&twice)
				if once != canonCase(cc.upper, s) {
					c.Violation(Violation{Sig: fmt.Sprintf("C16|codepoint-mapping|upper=%v", cc.upper), What: fmt.Sprintf("constraint applied to U+%04X gives %q, documented mapping gives %q", r, once, canonCase(cc.upper, s))})
				}
				if twice != once {
					c.Violation(Violation{Sig: fmt.Sprintf("C16|codepoint-idempotence|upper=%v", cc.upper), What: fmt.Sprintf("applying the constraint twice to U+%04X changes the value: %q then %q", r, once, twice)})
				}
				n++
			}
		}
		c.Count("evaluations", n)
		c.Count("codepoints_checked", n/2)
	}
	maxLen := 2
	if c.Tier == "thorough" {
		maxLen = 3
	}
	strs := caseStrings(maxLen)
	// short strings: idempotence and mapping
	if c.Shard == 4%c.NShards {
		up, low := sod.Constraints{Upper: true}, sod.Constraints{Lower: true}
		both := sod.Constraints{Upper: true, Lower: true}
		for _, s := range strs {
			for i, cc := range []*sod.Constraints{&up, &low, &both} {
				once := s
				cc.Transform(&once)
				twice := once
				cc.Transform(&twice)
				if twice != once {
					c.Violation(Violation{Sig: fmt.Sprintf("C16|string-idempotence|%d", i), What: fmt.Sprintf("applying the constraint twice to %q changes the value: %q then %q", s, once, twice)})
				}
				c.Count("evaluations", 1)
			}
		}
	}
	// (b) stored values, searches and uniqueness through the database
	cfgs := []Cfg{{}, {Cache: true, Index: 1}, {Index: 2, Async: 1}, {Ext: ".swapped"}}
	short := caseStrings(1)
	pairsOf := strs
	if c.Tier == "quick" {
		pairsOf = caseStrings(2)
	}
	item := 0
	for _, cfg := range cfgs {
		for _, withIn := range []bool{true, false} {
			for _, s1 := range pairsOf {
				item++
				if item%c.NShards != c.Shard {
					continue
				}
				if c.Expired() {
					c.Count("depth_incomplete", 1)
					return
				}
				cfg, withIn, s1 := cfg, withIn, s1
				swapped := cfg.Ext == ".swapped"
				if swapped {
					cfg.Ext = ""
				}
				var viol []Violation
				fail := func(sig, what string) {
					viol = append(viol, Violation{Sig: "C16|" + sig, What: what, Cfg: cfg, More: map[string]interface{}{"s1": s1, "withIn": withIn}})
				}
				x := RunPath(cfg, "C16", nil, func(w *World) {
					db := w.DB
					schema := cfg.Schema(&CaseRec{})
					if swapped {
						// a custom schema whose case constraints differ from the struct tags:
						// Raw becomes lower, L loses its constraint
						fds := sod.FieldDescriptors(&CaseRec{})
						for path, fd := range fds {
							switch path {
							case "Raw":
								fd.Constraints.Lower = true
							case "L":
								fd.Constraints.Lower = false
							}
							fds[path] = fd
						}
						schema = sod.NewCustomSchema(fds, sod.DefaultExtension)
					}
					if err := db.Create(&CaseRec{}, schema); err != nil {
						fail("create", "Create failed: "+err.Error())
						return
					}
					a := newCaseRec(s1, withIn)
					if err := db.InsertOrUpdate(a); err != nil {
						fail("insert", fmt.Sprintf("insert of %q failed: %v", s1, err))
						return
					}
					g := &CaseRec{}
					g.Initialize(a.UUID())
					o, err := db.Get(g)
					if err != nil {
						fail("get", "Get failed: "+err.Error())
						return
					}
					got := o.(*CaseRec)
					for _, p := range casePaths {
						if strings.HasPrefix(p.Path, "In.") && !withIn {
							continue
						}
						want := canonCase(p.Upper, s1)
						if p.Path == "LU" {
							want = canonCase(false, "lu"+s1)
						}
						if swapped && p.Path == "L" {
							want = s1 // the custom schema removed the constraint of L
						}
						if p.get(got) != want {
							fail("stored-not-canonical|"+p.Path, fmt.Sprintf("field %s stored as %q, canonical form of %q is %q", p.Path, p.get(got), s1, want))
							return
						}
					}
					wantRaw := s1
					if swapped {
						wantRaw = strings.ToLower(s1) // the custom schema put a lower constraint on Raw
					}
					if got.Raw != wantRaw {
						fail("raw-changed", fmt.Sprintf("field Raw stored as %q, expected %q", got.Raw, wantRaw))
						return
					}
					// searches with case variants of s1 and with neighbours
					probes := []string{s1, strings.ToUpper(s1), strings.ToLower(s1), strings.ToTitle(s1)}
					probes = append(probes, short...)
					for _, p := range casePaths {
						stored := canonCase(p.Upper, s1)
						if strings.HasPrefix(p.Path, "In.") && !withIn {
							stored = ""
						}
						if p.Path == "LU" || p.Path == "NS" || (swapped && p.Path == "L") {
							continue
						}
						for _, probe := range probes {
							cp := canonCase(p.Upper, probe)
							for _, op := range []string{"=", "!=", "<", ">=", "~="} {
								want := false
								probe := probe
								if op == "~=" {
									// a pattern is a search value too: it is canonicalised like one
									probe = "^" + regexp.QuoteMeta(probe)
								}
								switch op {
								case "~=":
									want = strings.HasPrefix(stored, cp)
								case "=":
									want = stored == cp
								case "!=":
									want = stored != cp
								case "<":
									want = stored < cp
								case ">=":
									want = stored >= cp
								}
								s := db.Search(&CaseRec{}, p.Path, op, probe)
								if s.Err() != nil {
									fail("search-err|"+p.Path, fmt.Sprintf("Search(%s %s %q) failed: %v", p.Path, op, probe, s.Err()))
									return
								}
								if (s.Len() == 1) != want {
									fail("search-case|"+p.Path+"|"+op, fmt.Sprintf("Search(%s %s %q) on stored %q (given as %q) found %d objects, expected match=%v", p.Path, op, probe, stored, s1, s.Len(), want))
									return
								}
								// the same condition as a refinement: And on a search matching the
								// object, Or on a search matching nothing
								all := db.Search(&CaseRec{}, "Raw", "!=", "\x00never")
								none := db.Search(&CaseRec{}, "Raw", "=", "\x00never")
								if sa := all.And(p.Path, op, probe); sa.Err() != nil || (sa.Len() == 1) != want {
									fail("search-case-and|"+p.Path+"|"+op, fmt.Sprintf("Search(all).And(%s %s %q) on stored %q found %d objects (err %v), expected match=%v", p.Path, op, probe, stored, sa.Len(), sa.Err(), want))
									return
								}
								if so := none.Or(p.Path, op, probe); so.Err() != nil || (so.Len() == 1) != want {
									fail("search-case-or|"+p.Path+"|"+op, fmt.Sprintf("Search(none).Or(%s %s %q) on stored %q found %d objects (err %v), expected match=%v", p.Path, op, probe, stored, so.Len(), so.Err(), want))
									return
								}
								c.Count("evaluations", 3)
							}
						}
					}
					if swapped {
						for _, probe := range probes {
							sr := db.Search(&CaseRec{}, "Raw", "=", probe)
							want := strings.ToLower(probe) == strings.ToLower(s1)
							if sr.Err() != nil || (sr.Len() == 1) != want {
								fail("search-case|Raw|custom", fmt.Sprintf("custom schema gives Raw a lower constraint: Search(Raw = %q) on stored %q found %d (err %v), expected match=%v", probe, s1, sr.Len(), sr.Err(), want))
								return
							}
						}
					}
					// uniqueness is judged on canonical values
					for _, s2 := range short {
						b := newCaseRec(s2+"x", withIn)
						b.UU = s2
						if len(s1) > 0 {
							// same length class as s1: replace the first rune
							_, sz := utf8.DecodeRuneInString(s1)
							b.UU = s2 + s1[sz:]
						}
						err := db.InsertOrUpdate(b)
						conflict := strings.ToUpper(b.UU) == strings.ToUpper(s1) || strings.ToLower(b.LU) == strings.ToLower(a.LU)
						if conflict != sod.IsUnique(err) || (!conflict && err != nil) {
							fail("unique-canonical", fmt.Sprintf("stored UU=%q, inserting UU=%q: err=%v, canonical values equal=%v", s1, b.UU, err, conflict))
							return
						}
						if err == nil {
							if derr := db.Delete(b); derr != nil {
								fail("delete", "Delete failed: "+derr.Error())
								return
							}
						}
						c.Count("evaluations", 1)
					}
				})
				c.Count("transitions", 1)
				c.Count("paths_replayed", 1)
				c.Distinct("states", cfg.String()+s1+fmt.Sprint(withIn))
				if strings.ToUpper(s1) != s1 || strings.ToLower(s1) != s1 {
					c.Distinct("distinct_nontrivial", cfg.String()+s1+fmt.Sprint(withIn))
				}
				for _, v := range append(viol, x.W.Viol...) {
					c.Violation(v)
				}
			}
		}
	}
	c.Sample(map[string]interface{}{"strings": strs[:20], "alphabet": caseAlphabet})
	c.Meta(map[string]interface{}{
		"rule":    "(a) every Unicode code point (1 112 064 scalar values) as a one-rune string and every string of length <= max over a case-folding-hostile alphabet through the real Constraints.Transform for upper, lower (and both): equals the documented mapping and is idempotent; (b) every such string stored in fields carrying the constraints at depth 0, behind a nil / non-nil pointer and in an embedded struct (indexed, unindexed, unique; three index configurations): read-back canonical at every path, searches with case variants and neighbours agree with comparison of canonical forms for =, !=, <, >=, uniqueness decided on canonical values. Non-trivial = strings changed by at least one of the mappings.",
		"max_len": maxLen, "strings": len(strs), "configs": cfgs,
		"assumptions": []string{"valid UTF-8 only"},
	})
}
