package main

import (
	"fmt"
	"reflect"
	"time"
	"unsafe"

	"github.com/0xrawsec/sod"
)

func init() {
	drivers["C14"] = runC14
}

type PInner struct {
	X int
	S []int
}

type PNested struct {
	S []int
	M map[string]int
}

// Pay is a payload type made of every container kind.
type Pay struct {
	sod.Item
	Key  int `sod:"index"`
	Sl   []int
	SlP  []*int
	SlS  []PInner
	Arr  [3]int
	ArrP [2]*int
	M    map[string]int
	MP   map[string]*PInner
	MS   map[string][]*int
	P    *PInner
	PP   **int
	NV   PNested
	SI   []interface{}
	T    time.Time
	// deeper shapes: containers inside containers, three levels of structs by value
	MI   map[string]interface{}
	Deep PDeep
	SAr  [][2]*int
	SAs  [][2][]int
	SS   [][]int
	SM   []map[string]int
	MSl  map[string][]int
	SlT  []PTags
}

type PTags struct {
	Name string
	Tags []string
}
type PDeepB struct {
	L []int
	M map[string]int
}
type PDeepA struct {
	X int
	B PDeepB
}
type PDeep struct {
	A PDeepA
	N int
}

func ip(v int) *int { return &v }

// container fields and their three fillings: 0 nil/zero, 1 empty, 2 non-empty
const nPayFields = 20

func fillPay(p *Pay, field, mode int) {
	switch field {
	case 0:
		switch mode {
		case 1:
			p.Sl = []int{}
		case 2:
			p.Sl = []int{1, 2, 3}
		}
	case 1:
		switch mode {
		case 1:
			p.SlP = []*int{}
		case 2:
			p.SlP = []*int{ip(1), nil, ip(3)}
		}
	case 2:
		switch mode {
		case 1:
			p.SlS = []PInner{}
		case 2:
			p.SlS = []PInner{{X: 1, S: []int{7}}, {X: 2}}
		}
	case 3:
		if mode == 2 {
			p.Arr = [3]int{4, 5, 6}
		}
	case 4:
		switch mode {
		case 1:
			p.ArrP = [2]*int{nil, nil}
		case 2:
			p.ArrP = [2]*int{ip(8), ip(9)}
		}
	case 5:
		switch mode {
		case 1:
			p.M = map[string]int{}
		case 2:
			p.M = map[string]int{"a": 1, "b": 2}
		}
	case 6:
		switch mode {
		case 1:
			p.MP = map[string]*PInner{}
		case 2:
			p.MP = map[string]*PInner{"a": {X: 1, S: []int{1}}, "n": nil}
		}
	case 7:
		switch mode {
		case 1:
			p.MS = map[string][]*int{}
		case 2:
			p.MS = map[string][]*int{"a": {ip(1), ip(2)}, "e": {}}
		}
	case 8:
		switch mode {
		case 1:
			p.P = &PInner{}
		case 2:
			p.P = &PInner{X: 5, S: []int{5, 6}}
		}
	case 9:
		switch mode {
		case 1:
			var n *int
			p.PP = &n
		case 2:
			q := ip(11)
			p.PP = &q
		}
	case 10:
		switch mode {
		case 1:
			p.NV = PNested{S: []int{}, M: map[string]int{}}
		case 2:
			p.NV = PNested{S: []int{1, 2}, M: map[string]int{"z": 26}}
		}
	case 12:
		switch mode {
		case 1:
			p.MI = map[string]interface{}{}
		case 2:
			p.MI = map[string]interface{}{"l": []interface{}{"a", "b"}, "m": map[string]interface{}{"x": "y"}, "s": "t"}
		}
	case 13:
		switch mode {
		case 1:
			p.Deep = PDeep{A: PDeepA{B: PDeepB{L: []int{}, M: map[string]int{}}}}
		case 2:
			p.Deep = PDeep{A: PDeepA{X: 1, B: PDeepB{L: []int{1, 2}, M: map[string]int{"q": 1}}}, N: 2}
		}
	case 14:
		switch mode {
		case 1:
			p.SAr = [][2]*int{}
		case 2:
			p.SAr = [][2]*int{{ip(1), ip(2)}, {nil, ip(3)}}
		}
	case 15:
		switch mode {
		case 1:
			p.SAs = [][2][]int{}
		case 2:
			p.SAs = [][2][]int{{{1, 2}, {3}}, {nil, {4}}}
		}
	case 16:
		switch mode {
		case 1:
			p.SS = [][]int{}
		case 2:
			p.SS = [][]int{{1, 2}, {}, {3}}
		}
	case 17:
		switch mode {
		case 1:
			p.SM = []map[string]int{}
		case 2:
			p.SM = []map[string]int{{"a": 1}, nil, {"b": 2}}
		}
	case 18:
		switch mode {
		case 1:
			p.MSl = map[string][]int{}
		case 2:
			p.MSl = map[string][]int{"a": {1, 2}, "e": {}}
		}
	case 19:
		switch mode {
		case 1:
			p.SlT = []PTags{}
		case 2:
			p.SlT = []PTags{{Name: "n", Tags: []string{"x", "y"}}, {Name: "m"}}
		}
	case 11:
		switch mode {
		case 1:
			p.SI = []interface{}{}
		case 2:
			// the shape of a decoded JSON array: containers inside interface values
			p.SI = []interface{}{map[string]interface{}{"k": "v"}, []interface{}{"a", "b"}, "s"}
		}
	}
}

// shape = list of (field, mode) with mode != 0
type shape [][2]int

func shapes(thorough bool) []shape {
	var out []shape
	out = append(out, shape{})
	for f := 0; f < nPayFields; f++ {
		for m := 1; m <= 2; m++ {
			out = append(out, shape{{f, m}})
		}
	}
	for f := 0; f < nPayFields; f++ {
		for g := f + 1; g < nPayFields; g++ {
			for m := 1; m <= 2; m++ {
				for n := 1; n <= 2; n++ {
					out = append(out, shape{{f, m}, {g, n}})
				}
			}
		}
	}
	if thorough {
		// all 3^6 fillings of the six pointer-bearing fields
		pf := []int{1, 4, 6, 7, 8, 9}
		var rec func(i int, cur shape)
		rec = func(i int, cur shape) {
			if i == len(pf) {
				if len(cur) > 2 {
					out = append(out, append(shape{}, cur...))
				}
				return
			}
			for m := 0; m <= 2; m++ {
				if m == 0 {
					rec(i+1, cur)
				} else {
					rec(i+1, append(cur, [2]int{pf[i], m}))
				}
			}
		}
		rec(0, nil)
	}
	return out
}

func buildPay(sh shape) *Pay {
	p := &Pay{Key: 1, T: time.Unix(1700000000, 5).UTC()}
	for _, fm := range sh {
		fillPay(p, fm[0], fm[1])
	}
	return p
}

// mutators: change one reachable mutable location of p in place; returns false if not applicable
var payMutators = []struct {
	Name string
	F    func(p *Pay) bool
}{
	{"Key", func(p *Pay) bool { p.Key = 99; return true }},
	{"Sl[0]", func(p *Pay) bool {
		if len(p.Sl) == 0 {
			return false
		}
		p.Sl[0] = 99
		return true
	}},
	{"Sl.append", func(p *Pay) bool { p.Sl = append(p.Sl, 99); return true }},
	{"*SlP[0]", func(p *Pay) bool {
		if len(p.SlP) == 0 || p.SlP[0] == nil {
			return false
		}
		*p.SlP[0] = 99
		return true
	}},
	{"SlS[0].S[0]", func(p *Pay) bool {
		if len(p.SlS) == 0 || len(p.SlS[0].S) == 0 {
			return false
		}
		p.SlS[0].S[0] = 99
		return true
	}},
	{"SlS[0].X", func(p *Pay) bool {
		if len(p.SlS) == 0 {
			return false
		}
		p.SlS[0].X = 99
		return true
	}},
	{"Arr[1]", func(p *Pay) bool { p.Arr[1] = 99; return true }},
	{"*ArrP[0]", func(p *Pay) bool {
		if p.ArrP[0] == nil {
			return false
		}
		*p.ArrP[0] = 99
		return true
	}},
	{"M[a]", func(p *Pay) bool {
		if p.M == nil {
			return false
		}
		p.M["a"] = 99
		return true
	}},
	{"M[new]", func(p *Pay) bool {
		if p.M == nil {
			return false
		}
		p.M["new"] = 99
		return true
	}},
	{"MP[a].X", func(p *Pay) bool {
		if p.MP == nil || p.MP["a"] == nil {
			return false
		}
		p.MP["a"].X = 99
		return true
	}},
	{"MP[new]", func(p *Pay) bool {
		if p.MP == nil {
			return false
		}
		p.MP["new"] = &PInner{X: 99}
		return true
	}},
	{"*MS[a][0]", func(p *Pay) bool {
		if p.MS == nil || len(p.MS["a"]) == 0 {
			return false
		}
		*p.MS["a"][0] = 99
		return true
	}},
	{"P.X", func(p *Pay) bool {
		if p.P == nil {
			return false
		}
		p.P.X = 99
		return true
	}},
	{"P.S[0]", func(p *Pay) bool {
		if p.P == nil || len(p.P.S) == 0 {
			return false
		}
		p.P.S[0] = 99
		return true
	}},
	{"**PP", func(p *Pay) bool {
		if p.PP == nil || *p.PP == nil {
			return false
		}
		**p.PP = 99
		return true
	}},
	{"NV.S[0]", func(p *Pay) bool {
		if len(p.NV.S) == 0 {
			return false
		}
		p.NV.S[0] = 99
		return true
	}},
	{"SI[0][k]", func(p *Pay) bool {
		if len(p.SI) == 0 {
			return false
		}
		m, ok := p.SI[0].(map[string]interface{})
		if !ok {
			return false
		}
		m["k"] = "changed"
		return true
	}},
	{"SI[1][0]", func(p *Pay) bool {
		if len(p.SI) < 2 {
			return false
		}
		l, ok := p.SI[1].([]interface{})
		if !ok || len(l) == 0 {
			return false
		}
		l[0] = "changed"
		return true
	}},
	{"MI[l][0]", func(p *Pay) bool {
		l, ok := p.MI["l"].([]interface{})
		if !ok || len(l) == 0 {
			return false
		}
		l[0] = "changed"
		return true
	}},
	{"Deep.A.B.L[0]", func(p *Pay) bool {
		if len(p.Deep.A.B.L) == 0 {
			return false
		}
		p.Deep.A.B.L[0] = 99
		return true
	}},
	{"*SAr[0][0]", func(p *Pay) bool {
		if len(p.SAr) == 0 || p.SAr[0][0] == nil {
			return false
		}
		*p.SAr[0][0] = 99
		return true
	}},
	{"SAs[0][0][0]", func(p *Pay) bool {
		if len(p.SAs) == 0 || len(p.SAs[0][0]) == 0 {
			return false
		}
		p.SAs[0][0][0] = 99
		return true
	}},
	{"SS[0][0]", func(p *Pay) bool {
		if len(p.SS) == 0 || len(p.SS[0]) == 0 {
			return false
		}
		p.SS[0][0] = 99
		return true
	}},
	{"SM[0][a]", func(p *Pay) bool {
		if len(p.SM) == 0 || p.SM[0] == nil {
			return false
		}
		p.SM[0]["a"] = 99
		return true
	}},
	{"MSl[a][0]", func(p *Pay) bool {
		if len(p.MSl["a"]) == 0 {
			return false
		}
		p.MSl["a"][0] = 99
		return true
	}},
	{"SlT[0].Tags[0]", func(p *Pay) bool {
		if len(p.SlT) == 0 || len(p.SlT[0].Tags) == 0 {
			return false
		}
		p.SlT[0].Tags[0] = "changed"
		return true
	}},
	{"NV.M[z]", func(p *Pay) bool {
		if p.NV.M == nil {
			return false
		}
		p.NV.M["z"] = 99
		return true
	}},
}

// addresses collects the addresses of all mutable memory reachable through
// exported fields: pointer targets, map headers, backing arrays of non-empty slices.
func addresses(v reflect.Value, out map[uintptr]string, path string) {
	switch v.Kind() {
	case reflect.Ptr:
		if v.IsNil() {
			return
		}
		out[v.Pointer()] = path
		addresses(v.Elem(), out, path+"*")
	case reflect.Interface:
		if !v.IsNil() {
			addresses(v.Elem(), out, path)
		}
	case reflect.Struct:
		if v.Type() == reflect.TypeOf(time.Time{}) {
			return
		}
		for i := 0; i < v.NumField(); i++ {
			if !v.Type().Field(i).IsExported() {
				continue
			}
			addresses(v.Field(i), out, path+"."+v.Type().Field(i).Name)
		}
	case reflect.Slice:
		if v.Len() == 0 {
			return
		}
		out[v.Pointer()] = path + "[]"
		for i := 0; i < v.Len(); i++ {
			addresses(v.Index(i), out, fmt.Sprintf("%s[%d]", path, i))
		}
	case reflect.Array:
		for i := 0; i < v.Len(); i++ {
			addresses(v.Index(i), out, fmt.Sprintf("%s[%d]", path, i))
		}
	case reflect.Map:
		if v.IsNil() {
			return
		}
		out[uintptr(unsafe.Pointer(v.Pointer()))] = path + "{}"
		it := v.MapRange()
		for it.Next() {
			addresses(it.Value(), out, path+"{"+fmt.Sprint(it.Key())+"}")
		}
	}
}

func sharedMemory(a, b interface{}) string {
	ma, mb := map[uintptr]string{}, map[uintptr]string{}
	addresses(reflect.ValueOf(a).Elem(), ma, "")
	addresses(reflect.ValueOf(b).Elem(), mb, "")
	for p, where := range ma {
		if w2, ok := mb[p]; ok {
			return where + " <-> " + w2
		}
	}
	return ""
}

func runC14(c *Ctx) {
	type mode struct {
		Name string
		Cfg  Cfg
		Tick bool // flush before reading
	}
	modes := []mode{
		{"sync", Cfg{}, false},
		{"cache", Cfg{Cache: true}, false},
		{"async-pending", Cfg{Async: 3}, false},
		{"async-flushed", Cfg{Async: 2}, true},
		{"cache-compress", Cfg{Cache: true, Compress: true}, false},
	}
	shs := shapes(c.Tier == "thorough")
	item := 0
	for _, md := range modes {
		for si, sh := range shs {
			item++
			if item%c.NShards != c.Shard {
				continue
			}
			if c.Expired() {
				c.Count("depth_incomplete", 1)
				return
			}
			md, sh := md, sh
			var viol []Violation
			fail := func(sig, what string) {
				viol = append(viol, Violation{Sig: "C14|" + sig, What: what, Cfg: md.Cfg, More: map[string]interface{}{"mode": md.Name, "shape": sh}})
			}
			reads := func(db *sod.DB, uuid string, dirty *Pay) map[string]*Pay {
				out := map[string]*Pay{}
				g := &Pay{}
				g.Initialize(uuid)
				if o, err := db.Get(g); err == nil {
					out["Get(fresh)"] = o.(*Pay)
				} else {
					fail("read-err", "Get failed: "+err.Error())
				}
				if o, err := db.GetByUUID(&Pay{}, uuid); err == nil {
					out["GetByUUID"] = o.(*Pay)
				}
				if all, err := db.All(&Pay{}); err == nil && len(all) == 1 {
					out["All"] = all[0].(*Pay)
				}
				if objs, err := db.Search(&Pay{}, "Key", "=", 1).Collect(); err == nil && len(objs) == 1 {
					out["Collect"] = objs[0].(*Pay)
				}
				var ps []*Pay
				if err := db.AssignAll(&Pay{}, &ps); err == nil && len(ps) == 1 {
					out["AssignAll"] = ps[0]
				}
				if dirty != nil {
					if o, err := db.Get(dirty); err == nil {
						out["Get(same dirty object)"] = o.(*Pay)
					}
				}
				return out
			}
			nm := 0
			for mi := -1; mi < len(payMutators); mi++ {
				mi := mi
				ran := false
				x := RunPath(md.Cfg, "C14", nil, func(w *World) {
					db := w.DB
					if err := db.Create(&Pay{}, md.Cfg.Schema(&Pay{})); err != nil {
						fail("create", "Create failed: "+err.Error())
						return
					}
					orig := buildPay(sh)
					want := jsonOf(buildPay(sh))
					if mi >= 0 {
						probe := buildPay(sh)
						if !payMutators[mi].F(probe) {
							return
						}
					}
					ran = true
					if err := db.InsertOrUpdate(orig); err != nil {
						fail("insert", "insert failed: "+err.Error())
						return
					}
					uuid := orig.UUID()
					if md.Tick {
						vrtTick(3)
					}
					if mi < 0 {
						// no mutation: cached read equals file round trip; two reads share nothing; nothing shared with the stored object
						rs := reads(db, uuid, nil)
						for name, r := range rs {
							if j := jsonOf(r); j != want {
								fail("read-differs|"+name, fmt.Sprintf("%s returns %s, stored %s", name, j, want))
								return
							}
							if s := sharedMemory(orig, r); s != "" {
								fail("alias-in|"+name, fmt.Sprintf("%s returns an object sharing memory with the object passed to InsertOrUpdate at %s", name, s))
								return
							}
						}
						rs2 := reads(db, uuid, nil)
						for n1, r1 := range rs {
							for n2, r2 := range rs2 {
								if s := sharedMemory(r1, r2); s != "" {
									fail("alias-out|"+n1+"|"+n2, fmt.Sprintf("two reads (%s, %s) share memory at %s", n1, n2, s))
									return
								}
							}
						}
						return
					}
					// (1) mutate the caller's object after storing, then read
					payMutators[mi].F(orig)
					rs := reads(db, uuid, orig)
					for name, r := range rs {
						if j := jsonOf(r); j != want {
							fail("mutate-after-store|"+name, fmt.Sprintf("after mutating %s of the object passed to InsertOrUpdate, %s returns %s, accepted value was %s", payMutators[mi].Name, name, j, want))
							return
						}
					}
					// (2) mutate a returned object, then read again
					g := &Pay{}
					g.Initialize(uuid)
					o, err := db.Get(g)
					if err != nil {
						fail("read-err", "Get failed: "+err.Error())
						return
					}
					payMutators[mi].F(o.(*Pay))
					if all, err := db.All(&Pay{}); err == nil && len(all) == 1 {
						payMutators[mi].F(all[0].(*Pay))
					}
					if objs, err := db.Search(&Pay{}, "Key", "=", 1).Collect(); err == nil && len(objs) == 1 {
						payMutators[mi].F(objs[0].(*Pay))
					}
					rs = reads(db, uuid, nil)
					for name, r := range rs {
						if j := jsonOf(r); j != want {
							fail("mutate-returned|"+name, fmt.Sprintf("after mutating %s of objects returned by reads, %s returns %s, accepted value was %s", payMutators[mi].Name, name, j, want))
							return
						}
					}
					// (3) and after a reopen the files hold the accepted value
					if err := db.Close(); err != nil {
						fail("close", "Close failed: "+err.Error())
						return
					}
					w.open()
					db = w.DB
					first := reads(db, uuid, nil)
					for name, r := range first {
						if j := jsonOf(r); j != want {
							fail("mutate-then-reopen|"+name, fmt.Sprintf("after mutations of %s and reopen, %s returns %s, accepted value was %s", payMutators[mi].Name, name, j, want))
							return
						}
					}
					// (4) the first reads on the new handle miss the cache: mutate what they returned, read again
					for _, r := range first {
						payMutators[mi].F(r)
						r.Key = 4242
					}
					for name, r := range reads(db, uuid, nil) {
						if j := jsonOf(r); j != want {
							fail("mutate-returned-after-reopen|"+name, fmt.Sprintf("after reopen, mutating %s of the objects returned by the first reads changes what %s returns: %s, accepted value was %s", payMutators[mi].Name, name, j, want))
							return
						}
					}
				})
				if !ran {
					continue
				}
				nm++
				c.Count("evaluations", 1)
				c.Count("transitions", 3)
				c.Count("paths_replayed", 1)
				for _, v := range append(viol, x.W.Viol...) {
					c.Violation(v)
				}
				viol = nil
			}
			c.Distinct("states", md.Name+jsonOf(sh))
			if len(sh) > 0 {
				c.Distinct("distinct_nontrivial", md.Name+jsonOf(sh))
			}
			if si < 2 {
				c.Sample(map[string]interface{}{"mode": md.Name, "shape": sh, "object": buildPay(sh), "mutations_applied": nm})
			}
		}
	}
	c.Meta(map[string]interface{}{
		"rule":   "shapes: every single and every pair of container fields (slice of ints / pointers / structs, array, array of pointers, maps to ints / pointers / slices of pointers, pointer, pointer to pointer, nested struct by value, map of interfaces holding containers, three levels of structs by value, slices of arrays of pointers / of slices, slice of slices, slice of maps, map of slices, slice of structs holding slices) filled empty or non-empty (thorough: additionally all 3^6 fillings of the pointer-bearing fields); per shape and storage mode (sync, cache, async pending, async flushed, cache+compression): store, then per mutator (18 reachable mutable locations) mutate the caller's object and read through Get(fresh), Get(same dirty object), GetByUUID, All, AssignAll, Collect; mutate returned objects and read again; reopen and read; without mutation: JSON equality of every read with the accepted value and a reflection walk proving that no read shares memory with the stored argument or with another read. Non-trivial = non-empty shapes.",
		"shapes": len(shs), "modes": len(modes), "mutators": len(payMutators),
		"assumptions": []string{"strings (immutable) and unexported fields are skipped, as documented in object.go"},
	})
}
