package main

func runC06Faults(c *Ctx) {}
