package main

import (
	"bytes"
	"compress/gzip"
	"encoding/json"
	"fmt"
	"io"
	"os"
	"regexp"
	"sort"
	"strings"

	"github.com/0xrawsec/sod"
	"github.com/0xrawsec/sod/zzverif/vfs"
	"github.com/0xrawsec/sod/zzverif/vrt"
)

// ---- E3: crash and fault enumeration over recorded file-operation logs -------------------

var uuidRe = regexp.MustCompile(`^[0-9a-fA-F]{8}-[0-9a-fA-F]{4}-[0-9a-fA-F]{4}-[0-9a-fA-F]{4}-[0-9a-fA-F]{12}$`)

// Recorded is one history executed with the mutation log on.
type Recorded struct {
	Cfg    Cfg
	Path   []Op
	Log    []vfs.Mut
	Models []*Model            // Models[i] = reference after call i (0 = after Create)
	Values map[string][]string // every JSON value each uuid was ever accepted with
	Slots  []string
	Viol   []Violation
	OpsAt  []int // OpsAt[i] = number of file-system operations performed before call i+1 started
	Ops    int
}

// Record runs path under cfg with the log on.
func Record(cfg Cfg, prop string, path []Op) *Recorded {
	r := &Recorded{Cfg: cfg, Path: path, Values: map[string][]string{}}
	res := RunPath(cfg, prop, nil, func(w *World) {
		r.Models = append(r.Models, w.M.Clone())
		for _, op := range path {
			r.OpsAt = append(r.OpsAt, w.FS.Ops)
			w.Apply(op)
			r.Models = append(r.Models, w.M.Clone())
			for u, o := range w.M.Objs {
				j := jsonOf(o)
				vs := r.Values[u]
				if len(vs) == 0 || vs[len(vs)-1] != j {
					r.Values[u] = append(vs, j)
				}
			}
		}
		r.Log = append([]vfs.Mut{}, w.FS.Log...)
		r.Slots = append([]string{}, w.Slots...)
		r.Ops = w.FS.Ops
	})
	r.Viol = res.W.Viol
	return r
}

// Materialize builds the file system holding exactly log[0:k) and, if cut >= 0,
// the first cut bytes of write log[k].
func Materialize(log []vfs.Mut, k int, cut int) *vfs.FS {
	f := vfs.New()
	for i := 0; i < k; i++ {
		f.Apply(log[i], -1)
	}
	if cut >= 0 && k < len(log) {
		f.Apply(log[k], cut)
	}
	return f
}

// fileClass names the kind of file a path denotes (signature axis).
func fileClass(p string) string {
	base := p
	if i := strings.LastIndex(p, "/"); i >= 0 {
		base = p[i+1:]
	}
	tmp := ""
	if strings.HasPrefix(base, ".") || strings.Contains(base, "tmp") {
		tmp = "-tmp"
		base = strings.TrimPrefix(base, ".")
	}
	switch {
	case strings.HasPrefix(base, "schema.json"):
		return "schema" + tmp
	case len(base) >= 36 && uuidRe.MatchString(base[:36]):
		return "object" + tmp
	case !strings.Contains(base, "."):
		return "dir"
	}
	return "other"
}

func mutClass(m vfs.Mut) string {
	c := m.Kind + ":" + fileClass(m.Path)
	if m.Kind == vfs.MRename {
		c += "->" + fileClass(m.To)
	}
	return c
}

// decodeFiles reads the collection directory independently of sod: name ->
// decoded record; bad = files that look like object files but do not decode.
func decodeFiles(f *vfs.FS, dir string, cfg Cfg) (objs map[string]*Rec, bad []string) {
	objs = map[string]*Rec{}
	ext := cfg.BaseExt()
	if cfg.Compress {
		ext += ".gz"
	}
	for _, p := range f.Paths(dir) {
		base := p[len(dir)+1:]
		if strings.Contains(base, "/") || base == "schema.json" {
			continue
		}
		if len(base) < 36 || !uuidRe.MatchString(base[:36]) || base[36:] != ext {
			continue
		}
		data, _ := f.Get(p)
		if cfg.Compress {
			zr, err := gzip.NewReader(bytes.NewReader(data))
			if err != nil {
				bad = append(bad, base)
				continue
			}
			d, err := io.ReadAll(zr)
			if err != nil {
				bad = append(bad, base)
				continue
			}
			data = d
		}
		r := &Rec{}
		if err := json.Unmarshal(data, r); err != nil {
			bad = append(bad, base)
			continue
		}
		r.Initialize(base[:36])
		objs[base[:36]] = r
	}
	return
}

// findCollDir finds the collection directory of Rec in f (or "" if none).
func findCollDir(f *vfs.FS, root string) string {
	for _, p := range f.Paths(root) {
		if !strings.HasSuffix(p, "/") {
			continue
		}
		base := strings.TrimSuffix(p[len(root)+1:], "/")
		if strings.Contains(base, "/") {
			continue
		}
		if strings.ToLower(strings.ReplaceAll(base, "_", "")) == "main.rec" {
			return root + "/" + base
		}
	}
	return ""
}

// agree checks that the index of db and the decoded files describe the same
// collection: same ids, same values through every indexed field, readable objects.
func agree(db *sod.DB, cfg Cfg, files map[string]*Rec) []string {
	var out []string
	n, err := db.Count(&Rec{})
	if err != nil {
		return []string{"Count fails: " + err.Error()}
	}
	if n != len(files) {
		out = append(out, fmt.Sprintf("index holds %d objects, directory holds %d object files", n, len(files)))
	}
	all, err := db.All(&Rec{})
	if err != nil {
		out = append(out, "All fails: "+err.Error())
	} else {
		for _, o := range all {
			f, ok := files[o.UUID()]
			if !ok {
				out = append(out, "All returns an object without file")
			} else if jsonOf(o) != jsonOf(f) {
				out = append(out, "All returns a value different from the file content")
			}
		}
	}
	for u, f := range files {
		for i := range fieldSpecs {
			spec := &fieldSpecs[i]
			if !indexedUnder(cfg, spec.Path) {
				continue
			}
			probe := rawValue(spec.Path, f)
			s := db.Search(&Rec{}, spec.Path, "=", probe)
			if s.Err() != nil {
				out = append(out, fmt.Sprintf("Search(%s) fails: %v", spec.Path, s.Err()))
				break
			}
			objs, err := s.Collect()
			found := false
			for _, o := range objs {
				if o.UUID() == u {
					found = true
				}
			}
			if err != nil || !found {
				out = append(out, fmt.Sprintf("index of %s does not hold the value stored in the file of an object (stale or missing entry; collect err %v)", spec.Path, err))
				break
			}
		}
	}
	// uniqueness over files
	ks, ns := map[string]bool{}, map[int64]bool{}
	for _, f := range files {
		if ks[f.K] || ns[f.N] {
			out = append(out, "two object files hold the same unique value")
		}
		ks[f.K], ns[f.N] = true, true
	}
	sort.Strings(out)
	return out
}

// agreeKinds names the kinds of disagreement in the output of agree (signature
// axis: a stale index *value* - finding K1 - is not an index holding other *ids*
// than the directory).
func agreeKinds(pr []string) string {
	kinds := map[string]bool{}
	for _, p := range pr {
		switch {
		case strings.HasPrefix(p, "index of "):
			kinds["stale-index-value"] = true
		case strings.HasPrefix(p, "index holds "):
			kinds["id-sets-differ"] = true
		case strings.HasPrefix(p, "All returns an object without file"):
			kinds["id-sets-differ"] = true
		case strings.HasPrefix(p, "All returns a value"):
			kinds["read-differs-from-file"] = true
		case strings.HasPrefix(p, "two object files"):
			kinds["files-not-unique"] = true
		default:
			kinds["read-fails"] = true
		}
	}
	var ks []string
	for k := range kinds {
		ks = append(ks, k)
	}
	sort.Strings(ks)
	return strings.Join(ks, "+")
}

// rawValue returns the Go value of field path p of r as a user would pass it to Search.
func rawValue(p string, r *Rec) interface{} {
	switch p {
	case "K":
		return r.K
	case "N":
		return r.N
	case "A":
		return r.A
	case "U16":
		return r.U16
	case "U64":
		return r.U64
	case "F64":
		return r.F64
	case "F32":
		return r.F32
	case "S":
		return r.S
	case "T":
		return r.T
	case "P":
		return r.P
	case "L":
		return r.L
	case "In.Tag":
		return inner(r).Tag
	case "In.Lvl":
		return inner(r).Lvl
	case "Emb.E":
		return r.E
	}
	panic(p)
}

// RecoverOutcome is what the recovery protocol observed on a materialised tree.
type RecoverOutcome struct {
	Class    string // not-created | clean | detected | unreadable | lost-schema
	Problems []string
	Err      string
}

// crashImage: one (history, crash point) case.
type crashImage struct {
	K    int
	Cut  int
	Call int // call during which the crash happens (len(path)+1 = after everything was acknowledged)
}

// checkCrash runs the recovery protocol on image img of rec and returns violations.
func checkCrash(rec *Recorded, img crashImage, prop string) []Violation {
	cfg := rec.Cfg
	var viol []Violation
	window := "end"
	last := "none"
	if img.K > 0 {
		last = mutClass(rec.Log[img.K-1])
	}
	if img.K < len(rec.Log) {
		window = mutClass(rec.Log[img.K])
		if img.Cut >= 0 {
			window = "torn-" + window
		}
	}
	opName := "end"
	if img.Call >= 1 && img.Call <= len(rec.Path) {
		opName = rec.Path[img.Call-1].Op
	}
	asyncTag := ""
	if cfg.Async != 0 {
		asyncTag = "|async"
	}
	// phase of the interrupted call: did any object file change persist, was the schema replaced
	objPersisted, schemaCommitted := "no", "no"
	for i := 0; i < img.K; i++ {
		m := rec.Log[i]
		if m.Call != img.Call {
			continue
		}
		target := m.Path
		if m.Kind == vfs.MRename {
			target = m.To
		}
		switch fileClass(target) {
		case "object":
			if m.Kind != vfs.MSync {
				objPersisted = "yes"
			}
		case "schema":
			schemaCommitted = "yes"
		}
	}
	mode := "sync"
	if cfg.Async != 0 {
		mode = "async"
	}
	_ = asyncTag
	phase := fmt.Sprintf("object-change-persisted=%s|schema-committed=%s", objPersisted, schemaCommitted)
	// does anything the interrupted call did show in the collection? Temporary
	// files that were never renamed into place do not.
	visible := func(m vfs.Mut) bool {
		target := m.Path
		if m.Kind == vfs.MRename {
			target = m.To
		}
		c := fileClass(target)
		return c == "object" || c == "schema" || c == "dir" || c == "other"
	}
	touched := false
	for i := 0; i < img.K; i++ {
		if rec.Log[i].Call == img.Call && visible(rec.Log[i]) {
			touched = true
		}
	}
	if img.Cut >= 0 && img.K < len(rec.Log) && visible(rec.Log[img.K]) {
		touched = true
	}
	if img.K >= len(rec.Log) || !touched {
		// no call was interrupted, or nothing the interrupted call did is visible
		// in the collection (at most a temporary file): its content is the one left
		// by a process that stopped right after the last acknowledgement
		phase = "after-acknowledgement"
	}
	fail := func(sym, what string) {
		viol = append(viol, Violation{
			Sig:  fmt.Sprintf("%s|%s|%s|%s", prop, sym, mode, phase),
			What: fmt.Sprintf("%s\n  crash during call %d (%s) after %d of %d file mutations (last persisted: %s; first lost: %s, cut=%d)", what, img.Call, opName, img.K, len(rec.Log), last, window, img.Cut),
			Cfg:  cfg, Path: rec.Path,
			More: map[string]interface{}{"crash_index": img.K, "cut": img.Cut},
		})
	}
	fsys := Materialize(rec.Log, img.K, img.Cut)
	if os.Getenv("VERIF_DEBUG") != "" {
		for i, m := range rec.Log {
			mark := " "
			if i >= img.K {
				mark = "x"
			}
			fmt.Fprintf(os.Stderr, "#DEBUG %s %3d call=%d %-8s %s %s %d bytes\n", mark, i, m.Call, m.Kind, renameSlots(rec.Slots, m.Path), renameSlots(rec.Slots, m.To), len(m.Data))
		}
		for _, p := range fsys.Paths(dbRoot) {
			if !strings.HasSuffix(p, "/") {
				data, _ := fsys.ReadFile(p)
				fmt.Fprintf(os.Stderr, "#DEBUG file %s: %s\n", renameSlots(rec.Slots, p), renameSlots(rec.Slots, string(data)))
			}
		}
	}
	acked := img.Call - 1 // calls fully acknowledged
	if acked > len(rec.Path) {
		acked = len(rec.Path)
	}
	createAcked := img.Call >= 1
	x := vrt.Run(vrt.Config{Sequential: true, MaxTicks: 100}, func() {
		vfs.Cur = fsys
		setGlobals(cfg)
		db := sod.Open(dbRoot)
		_, err := db.Schema(&Rec{})
		cls := classify(err)
		dir := findCollDir(fsys, dbRoot)
		switch {
		case err == nil:
		case cls == eCorrupted:
		case cls == eNotFound:
			if createAcked {
				fail("schema-lost", "Create was acknowledged but the schema cannot be found after the crash: "+err.Error())
			}
			return
		default:
			if createAcked {
				fail("unreadable", "the collection is unreadable after the crash (neither clean nor reported as index corruption): "+err.Error())
			}
			return
		}
		files, bad := decodeFiles(fsys, dir, cfg)
		if len(bad) > 0 && cfg.Async == 0 {
			fail("object-unreadable", fmt.Sprintf("object file(s) left undecodable: %d", len(bad)))
			return
		}
		if err == nil {
			if len(bad) > 0 {
				fail("object-unreadable", fmt.Sprintf("object file(s) left undecodable and the load reports nothing: %d", len(bad)))
				return
			}
			if pr := agree(db, cfg, files); len(pr) > 0 {
				fail("clean-but-disagree:"+agreeKinds(pr), "the load reports no corruption but index and files disagree: "+strings.Join(pr, "; "))
				return
			}
		}
		// Repair converges
		if rerr := db.Repair(&Rec{}); rerr != nil {
			sym := "repair-failed"
			if strings.Contains(rerr.Error(), "uniqueness constraint") {
				// a stale index entry (finding K1) holds the unique value a file re-uses
				sym = "repair-failed-unique"
			}
			fail(sym, "Repair failed: "+rerr.Error())
			return
		}
		if cerr := db.Control(); cerr != nil {
			fail("control-after-repair", "Control fails after Repair: "+cerr.Error())
			return
		}
		files2, bad2 := decodeFiles(fsys, dir, cfg)
		if len(bad2) > 0 {
			fail("object-unreadable", fmt.Sprintf("object file(s) undecodable after Repair: %d", len(bad2)))
			return
		}
		if pr := agree(db, cfg, files2); len(pr) > 0 {
			fail("disagree-after-repair:"+agreeKinds(pr), "after Repair index and files disagree: "+strings.Join(pr, "; "))
			return
		}
		// acknowledged operations are reflected; the interrupted one is atomic per object
		old := rec.Models[acked]
		newer := old
		if acked+1 < len(rec.Models) {
			newer = rec.Models[acked+1]
		}
		ids := map[string]bool{}
		for u := range old.Objs {
			ids[u] = true
		}
		for u := range newer.Objs {
			ids[u] = true
		}
		for u := range files2 {
			ids[u] = true
		}
		for u := range ids {
			got := ""
			if f, ok := files2[u]; ok {
				got = jsonOf(f)
			}
			o, n := "", ""
			if m, ok := old.Objs[u]; ok {
				o = jsonOf(m)
			}
			if m, ok := newer.Objs[u]; ok {
				n = jsonOf(m)
			}
			if cfg.Async == 0 {
				if got != o && got != n {
					fail("not-old-not-new", fmt.Sprintf("object %s is neither in its last acknowledged state nor in the state the interrupted call gives it: file=%q acknowledged=%q new=%q", renameSlots(rec.Slots, u), got, o, n))
					return
				}
			} else if got != "" {
				okv := false
				for _, v := range rec.Values[u] {
					if v == got {
						okv = true
					}
				}
				if !okv && got != n {
					fail("async-never-accepted-value", fmt.Sprintf("object %s holds a value it was never accepted with: %q", renameSlots(rec.Slots, u), got))
					return
				}
			}
		}
		// life goes on after the recovery: leftovers of the interrupted call (temporary
		// files) must not damage later writes. Shrink everything (shorter schema and
		// object files than anything written before), close, load again.
		if len(viol) > 0 {
			return
		}
		for u := range files2 {
			small := &Rec{K: "z" + u[:4], N: int64(len(u))}
			small.Initialize(u)
			if err := db.InsertOrUpdate(small); err != nil {
				fail("write-after-recovery", "an update after the recovery fails: "+err.Error())
				return
			}
			if cfg.Async == 0 {
				// synchronous mode: that call committed; a handle opened now must load
				dbx := sod.Open(dbRoot)
				if _, err := dbx.Schema(&Rec{}); err != nil {
					fail("unreadable-after-later-writes", "the collection was recovered and one object was updated; it cannot be loaded any more: "+err.Error())
					return
				}
				o := &Rec{}
				o.Initialize(u)
				if got, err := dbx.Get(o); err != nil || jsonOf(got) != jsonOf(func() *Rec { c := cloneRec(small); canon(c); return c }()) {
					fail("unreadable-after-later-writes", fmt.Sprintf("the object updated after the recovery reads back as %s (%v)", jsonOf(got), err))
					return
				}
			}
			break
		}
		if err := db.DeleteAll(&Rec{}); err != nil {
			fail("write-after-recovery", "DeleteAll after the recovery fails: "+err.Error())
			return
		}
		if err := db.Close(); err != nil {
			fail("write-after-recovery", "Close after the recovery fails: "+err.Error())
			return
		}
		db3 := sod.Open(dbRoot)
		if _, err := db3.Schema(&Rec{}); err != nil {
			fail("unreadable-after-later-writes", "the collection was recovered, written to and closed; it cannot be loaded any more: "+err.Error())
			return
		}
		if n, err := db3.Count(&Rec{}); err != nil || n != 0 {
			fail("unreadable-after-later-writes", fmt.Sprintf("after recovery, DeleteAll and Close a new handle counts (%d, %v)", n, err))
		}
	})
	for _, p := range x.Panics {
		fail("panic|"+firstLine(p.Value), "panic during recovery: "+p.Value+"\n"+trimStack(p.Stack))
	}
	if x.Deadlock || x.Horizon {
		fail("stuck", "recovery blocked")
	}
	return viol
}

func renameSlots(slots []string, s string) string {
	for i, u := range slots {
		s = strings.ReplaceAll(s, u, fmt.Sprintf("<s%d>", i))
	}
	return s
}

func init() { drivers["C05"] = runC05 }

func crashAlphabet(cfg Cfg) []Op {
	a := []Op{
		{Op: "ins", V: 1, K: 0},
		{Op: "ins", V: 1, K: 2}, // shares every index value with the first
		{Op: "upd", Slot: 0, V: 2, K: 0},
		{Op: "upd", Slot: 1, V: 0, K: 3},
		{Op: "del", Slot: 0},
		{Op: "delall"},
		{Op: "many", Batch: []Mem{{Kind: "fresh", V: 2, K: 3}, {Kind: "fresh", V: 3, K: 4}}},
		{Op: "sdel", Field: "A", Cmp: ">=", Probe: 2},
	}
	if cfg.Async != 0 {
		a = append(a, Op{Op: "tick"}, Op{Op: "flushallc"}, Op{Op: "reopen"})
	}
	return a
}

func enumPaths(alphabet []Op, depth int) [][]Op {
	var out [][]Op
	var gen func(p []Op, d int)
	gen = func(p []Op, d int) {
		if len(p) > 0 {
			out = append(out, append([]Op{}, p...))
		}
		if d == 0 {
			return
		}
		for _, op := range alphabet {
			gen(append(p, op), d-1)
		}
	}
	gen(nil, depth)
	return out
}

func runC05(c *Ctx) {
	depth := 3
	cfgs := []Cfg{{}, {Cache: true}, {Compress: true, Ext: ".v1.obj"}, {Async: 1}}
	if c.Tier == "thorough" {
		depth = 5
		cfgs = append(cfgs, Cfg{Async: 2, Compress: true}, Cfg{Index: 2, Lower: true})
	}
	item := 0
	for _, cfg := range cfgs {
		d := depth
		if cfg.Async != 0 && c.Tier == "quick" {
			// with pending writes the interesting windows need one more call (write, flush, write, commit)
			d = depth + 1
		}
		paths := enumPaths(crashAlphabet(cfg), d)
		// plus the creation itself
		paths = append([][]Op{{}}, paths...)
		for _, p := range paths {
			item++
			if item%c.NShards != c.Shard {
				continue
			}
			if c.Expired() {
				c.Count("depth_incomplete", 1)
				return
			}
			rec := Record(cfg, "C05", p)
			if len(rec.Viol) > 0 {
				// the history itself diverges from the reference (other properties' business)
				c.Count("histories_skipped", 1)
				continue
			}
			applicable := len(rec.Models) == len(p)+1
			if !applicable {
				continue
			}
			c.Count("paths_replayed", 1)
			c.Count("transitions", len(p))
			lastCall := len(p)
			var images []crashImage
			for k, m := range rec.Log {
				if m.Call != lastCall {
					continue
				}
				images = append(images, crashImage{K: k, Cut: -1, Call: m.Call})
				if m.Kind == vfs.MWrite && len(m.Data) > 1 {
					for _, cut := range []int{1, len(m.Data) / 2, len(m.Data) - 1} {
						images = append(images, crashImage{K: k, Cut: cut, Call: m.Call})
					}
				}
			}
			// after the last call was acknowledged
			images = append(images, crashImage{K: len(rec.Log), Cut: -1, Call: lastCall + 1})
			for _, img := range images {
				c.Count("evaluations", 1)
				c.Count("crash_images", 1)
				key := fmt.Sprintf("%s|%s|%d|%d", cfg, jsonOf(p), img.K, img.Cut)
				c.Distinct("states", key)
				if img.K < len(rec.Log) {
					c.Distinct("distinct_nontrivial", key)
				}
				for _, v := range checkCrash(rec, img, "C05") {
					c.Violation(v)
				}
			}
			if item < 60 && len(p) > 1 {
				var ks []string
				for _, m := range rec.Log {
					if m.Call == lastCall {
						ks = append(ks, mutClass(m))
					}
				}
				c.Sample(map[string]interface{}{"cfg": cfg, "history": p, "mutations_of_last_call": ks, "crash_images": len(images)})
			}
		}
	}
	c.Max("depth_completed", depth)
	c.Meta(map[string]interface{}{
		"rule":    "every history up to the depth over the crash alphabet (inserts sharing index values, updates, deletes, DeleteAll, batch, search-delete; async: tick, FlushAllAndCommit, reopen) is executed with the mutation log on; for every mutation of its last call (earlier calls are the last call of a shorter history) the tree holding exactly the log prefix is materialised, and for every write additionally the trees with the write cut at 1, 1/2 and len-1 bytes; plus the tree after acknowledgement. Recovery protocol on each image: Open, first load, classify {clean, detected, unreadable}, index/file agreement through every indexed field when clean, Repair, Control, agreement, and per-object 'last acknowledged or new' (sync) / 'a value it was accepted with' (async) against files decoded without sod code. Non-trivial = images strictly inside a call.",
		"configs": cfgs, "depth": depth,
		"assumptions": []string{"process-crash model: completed system calls persist in order; torn single writes; no reordering, no directory-entry loss"},
	})
}

// ---- C06, storage faults: every file operation of the last call of every short
// history fails once ----------------------------------------------------------------

func faultAlphabet(cfg Cfg) []Op {
	a := []Op{
		{Op: "ins", V: 1, K: 0},
		{Op: "ins", V: 2, K: 2},
		{Op: "upd", Slot: 0, V: 2, K: 0},
		{Op: "upd", Slot: 0, V: 3, K: 3},
		{Op: "del", Slot: 0},
		{Op: "delall"},
		{Op: "many", Batch: []Mem{{Kind: "fresh", V: 2, K: 3}, {Kind: "slot", Slot: 0, V: 3, K: 4}}},
		{Op: "bulk", CSize: 1, Batch: []Mem{{Kind: "fresh", V: 2, K: 3}, {Kind: "fresh", V: 3, K: 4}}},
		{Op: "sdel", Field: "A", Cmp: ">=", Probe: 2},
	}
	if cfg.Async != 0 {
		a = append(a, Op{Op: "flushallc"}, Op{Op: "reopen"})
	}
	return a
}

func runC06Faults(c *Ctx) {
	depth := 2
	cfgs := []Cfg{{}, {Cache: true, Compress: true}, {Async: 2}}
	kinds := []string{"eio", "partial"}
	if c.Tier == "thorough" {
		depth = 3
		cfgs = append(cfgs, Cfg{Index: 2, Ext: ".v1.obj"}, Cfg{Async: 1, Cache: true})
	}
	item := 0
	for _, cfg := range cfgs {
		cfg := cfg
		ord := func(p string) bool { return indexedUnder(cfg, p) }
		for _, p := range enumPaths(faultAlphabet(cfg), depth) {
			item++
			if item%c.NShards != c.Shard {
				continue
			}
			if c.Expired() {
				c.Count("depth_incomplete", 1)
				return
			}
			// the statement is about InsertOrUpdate and the batch calls: they are the faulted call
			if lo := p[len(p)-1].Op; lo != "ins" && lo != "upd" && lo != "many" && lo != "bulk" {
				continue
			}
			rec := Record(cfg, "C06", p)
			if len(rec.Viol) > 0 || len(rec.Models) != len(p)+1 {
				continue
			}
			first := rec.OpsAt[len(p)-1]
			for k := first; k < rec.Ops; k++ {
				for _, kind := range kinds {
					k, kind := k, kind
					var failed string
					hit := false
					partialOK := false
					res := RunPath(cfg, "C06", p[:len(p)-1], func(w *World) {
						w.Viol = nil
						before := w.Observe(ObsOpt{Ordered: true}, ord)
						w.FS.FailAt, w.FS.FailKind = w.FS.Ops+(k-first), kind
						w.Tolerant = true
						w.Apply(p[len(p)-1])
						w.Tolerant = false
						failed = w.FS.Failed
						w.FS.FailAt = -1
						if failed == "" {
							return
						}
						hit = true
						if len(w.Viol) > 0 {
							return
						}
						opn := p[len(p)-1].Op
						fk := strings.Fields(failed)[0] + ":" + fileClass(strings.Fields(failed)[1])
						// phase of the failed call: which of its effects reached the files
						objPersisted, schemaCommitted := "no", "no"
						for _, m := range w.FS.Log {
							if m.Call != len(w.Path) {
								continue
							}
							target := m.Path
							if m.Kind == vfs.MRename {
								target = m.To
							}
							switch fileClass(target) {
							case "object":
								objPersisted = "yes"
							case "schema":
								schemaCommitted = "yes"
							}
						}
						fail := func(sym, what string) {
							w.fail(fmt.Sprintf("fault|%s|object-change-persisted=%s|schema-committed=%s", sym, objPersisted, schemaCommitted), what+"\n  injected: "+kind+" at file operation "+fmt.Sprint(k)+" ("+failed+", "+fk+") during "+jsonOf(p[len(p)-1]))
						}
						if w.LastErr == nil {
							// acknowledged although a file operation failed: the reference post-state must hold,
							// on the live handle and after reopen
							w.SweepBasic()
							w.SearchSweep(false)
							if len(w.Viol) == 0 && cfg.Async == 0 {
								w.open()
								w.SweepBasic()
							}
							for i := range w.Viol {
								w.Viol[i].Sig = fmt.Sprintf("C06|fault|acknowledged-but-lost|op=%s|failed=%s", opn, fk)
								w.Viol[i].What = "the call returned nil although " + failed + " failed, and: " + w.Viol[i].What
							}
							return
						}
						after := w.Observe(ObsOpt{Ordered: true}, ord)
						dir := w.collDir()
						if after == before {
							// no trace on the live handle; the directory must still load cleanly or be reported
							if cfg.Async == 0 {
								w.open()
								if len(w.Viol) > 0 {
									cls := classify(firstLoadErr(w))
									if cls != eCorrupted {
										w.Viol = nil
										fail("unreadable-after-failed-call", "the failed call left no trace on the handle but the directory no longer loads")
									} else {
										w.Viol = nil
									}
								}
							}
							return
						}
						// a trace: it must be reported and repairable
						cerr := w.DB.Control()
						if cerr == nil && cfg.Async == 0 {
							// abandon and reopen: the first load must report it
							db2 := sod.Open(dbRoot)
							_, lerr := db2.Schema(&Rec{})
							if lerr == nil {
								files, bad := decodeFiles(w.FS, dir, cfg)
								pr := agree(db2, cfg, files)
								if len(bad) > 0 || len(pr) > 0 {
									kind := agreeKinds(pr)
									if len(bad) > 0 {
										kind += "+undecodable-file"
									}
									fail("silent-divergence:"+kind, "the call failed ("+w.LastErr.Error()+"), reads changed, Control and a fresh load report nothing, but index and files disagree: "+strings.Join(pr, "; "))
								} else {
									// the error was reported and what reached the files is consistent; the live
									// handle must then show exactly what a fresh handle shows (no cached or
									// indexed value that was never stored)
									live := w.DB
									w.DB = db2
									reloaded := w.Observe(ObsOpt{Ordered: true}, ord)
									w.DB = live
									if reloaded != after {
										fail("live-handle-diverges-from-disk|"+diffKind(reloaded, after), "the call failed ("+w.LastErr.Error()+"); Control and a fresh load report nothing, but the live handle returns values that are not on disk:\n"+firstDiff(reloaded, after))
									} else {
										partialOK = true
									}
								}
								return
							}
							if !sod.IsIndexCorrupted(lerr) {
								fail("unreadable-after-failed-call", "after the failed call the directory no longer loads: "+lerr.Error())
								return
							}
							if rerr := db2.Repair(&Rec{}); rerr != nil {
								fail("repair-failed", "Repair failed after the reported corruption: "+rerr.Error())
								return
							}
							files, _ := decodeFiles(w.FS, dir, cfg)
							if pr := agree(db2, cfg, files); len(pr) > 0 || db2.Control() != nil {
								kind := agreeKinds(pr)
								if len(pr) == 0 {
									kind = "control-fails"
								}
								fail("disagree-after-repair:"+kind, "after the failed call and Repair index and files disagree: "+strings.Join(pr, "; "))
							}
							return
						}
						if cerr != nil && !sod.IsIndexCorrupted(cerr) {
							fail("control-error-class", "Control fails with a non-corruption error after the failed call: "+cerr.Error())
							return
						}
						if cerr != nil {
							if rerr := w.DB.Repair(&Rec{}); rerr != nil {
								fail("repair-failed", "Repair failed after the reported corruption: "+rerr.Error())
								return
							}
							if c2 := w.DB.Control(); c2 != nil {
								fail("control-after-repair", "Control still fails after Repair: "+c2.Error())
							}
						}
					})
					if !hit {
						continue
					}
					if partialOK {
						c.Count("faults_leaving_consistent_partial_effect", 1)
					}
					c.Count("evaluations", 1)
					c.Count("fault_points", 1)
					c.Count("paths_replayed", 1)
					c.Count("transitions", 1)
					key := fmt.Sprintf("fault|%s|%s|%d|%s", cfg, jsonOf(p), k, kind)
					c.Distinct("states", key)
					c.Distinct("distinct_nontrivial", key)
					for _, v := range res.W.Viol {
						if !strings.Contains(v.Sig, "|fault|") {
							v.Sig = "C06|fault|" + strings.TrimPrefix(v.Sig, "C06|")
						}
						c.Violation(v)
					}
				}
			}
		}
	}
	c.Meta(map[string]interface{}{
		"fault_rule":    "storage faults: every history up to the fault depth over the fault alphabet is re-executed once per file-system operation (stat, open, read, write, mkdir, remove, rename, readdir) of its last call, with that operation failing (EIO without effect; for writes also a half-persisted write then ENOSPC). Oracle: nil return => reference post-state holds (also after reopen); error return => no trace, or Control / first load reports corruption and Repair restores agreement; anything else is a silent divergence.",
		"fault_configs": cfgs, "fault_depth": depth,
	})
}

func firstLoadErr(w *World) error {
	db := sod.Open(dbRoot)
	_, err := db.Schema(&Rec{})
	return err
}
