package main

import (
	"fmt"
	"strings"

	"github.com/0xrawsec/sod"
	"github.com/0xrawsec/sod/zzverif/vfs"
	"github.com/0xrawsec/sod/zzverif/vrt"
)

// Uniqueness on longer indexes: every insertion ORDER (permutation) of n distinct
// keys; after every step every key of the domain is offered again by a new
// object - through the string field and through the integer field - and must be
// refused exactly when a stored object holds it. Then every object moves to a
// new key (the old one must be free at once), and objects are deleted from the
// middle (released keys reusable).

func permutations(n int) [][]int {
	var out [][]int
	var rec func(cur []int, used int)
	rec = func(cur []int, used int) {
		if len(cur) == n {
			out = append(out, append([]int{}, cur...))
			return
		}
		for i := 0; i < n; i++ {
			if used&(1<<i) == 0 {
				rec(append(cur, i), used|1<<i)
			}
		}
	}
	rec(nil, 0)
	return out
}

func uniqueLongSweep(c *Ctx, cfg Cfg, perm []int) []Violation {
	var viol []Violation
	fail := func(sig, what string) {
		if len(viol) < 3 {
			viol = append(viol, Violation{Sig: "C03|long|" + sig, What: what + fmt.Sprintf("\n  keys inserted in the order %v under %s", perm, cfg.String()), Cfg: cfg})
		}
	}
	n := len(perm)
	ex := vrt.Run(vrt.Config{Sequential: true, MaxTicks: 50}, func() {
		setGlobals(cfg)
		fsys := vfs.New()
		vfs.Cur = fsys
		db := sod.Open(dbRoot)
		if err := db.Create(&Wide{}, cfg.Schema(&Wide{})); err != nil {
			fail("create", "Create failed: "+err.Error())
			return
		}
		holder := map[int]string{} // key -> uuid of the object holding K="k<key>" and N=key*10
		fresh := 100000
		// in the configurations without plain indexes the keys are long strings that differ in
		// their last bytes only (nothing may compare a prefix)
		prefix := ""
		if cfg.Index == 1 {
			prefix = strings.Repeat("p", 300)
		}
		kOf := func(k int) string { return fmt.Sprintf("%sk%03d", prefix, k) }
		probeAll := func(when string, domain []int) bool {
			for _, k := range domain {
				_, stored := holder[k]
				for _, field := range []string{"K", "N"} {
					fresh++
					o := &Wide{A: 1, B: wideB(1), U: 1, Seq: -1, K: fmt.Sprintf("fresh%d", fresh), N: fresh}
					if field == "K" {
						o.K = kOf(k)
					} else {
						o.N = k * 10
					}
					err := db.InsertOrUpdate(o)
					switch {
					case stored && !sod.IsUnique(err):
						fail("duplicate-accepted|"+field, fmt.Sprintf("%s: a new object with %s of key %d (held by a stored object) was answered with %v", when, field, k, err))
						return false
					case !stored && err != nil:
						fail("free-value-refused|"+field, fmt.Sprintf("%s: a new object with the free %s of key %d was refused: %v", when, field, k, err))
						return false
					}
					if err == nil {
						if derr := db.Delete(o); derr != nil {
							fail("delete", "deleting the probe object failed: "+derr.Error())
							return false
						}
					}
					c.Count("evaluations", 1)
				}
			}
			// re-saving every object with its own values succeeds
			for k, u := range holder {
				o := &Wide{A: 2, B: wideB(2), U: 2, Seq: k, K: kOf(k), N: k * 10}
				o.Initialize(u)
				if err := db.InsertOrUpdate(o); err != nil {
					fail("own-value-refused", fmt.Sprintf("%s: re-saving the object of key %d with its own unique values was refused: %v", when, k, err))
					return false
				}
			}
			if cnt, err := db.Count(&Wide{}); err != nil || cnt != len(holder) {
				fail("count", fmt.Sprintf("%s: Count = (%d, %v), expected %d", when, cnt, err, len(holder)))
				return false
			}
			return true
		}
		domain := []int{}
		for k := -1; k <= n; k++ {
			domain = append(domain, k)
		}
		for i, k := range perm {
			o := &Wide{A: k % 3, B: wideB(k % 3), U: k, Seq: i, K: kOf(k), N: k * 10}
			if err := db.InsertOrUpdate(o); err != nil {
				fail("insert", fmt.Sprintf("inserting key %d failed: %v", k, err))
				return
			}
			holder[k] = o.UUID()
			if len(holder) >= 3 && !probeAll(fmt.Sprintf("after inserting %d keys", i+1), domain) {
				return
			}
		}
		// reload in the middle of the story
		if err := db.Close(); err != nil {
			fail("close", "Close failed: "+err.Error())
			return
		}
		db = sod.Open(dbRoot)
		if !probeAll("after Close and Open", domain) {
			return
		}
		// every object moves to key+50: the old key is free at once, the new one taken
		wide := append([]int{}, domain...)
		for k := 0; k < n; k++ {
			wide = append(wide, k+50)
		}
		for k := 0; k < n; k++ {
			u := holder[k]
			o := &Wide{A: 0, B: wideB(0), U: 0, Seq: k, K: kOf(k + 50), N: (k + 50) * 10}
			o.Initialize(u)
			if err := db.InsertOrUpdate(o); err != nil {
				fail("move", fmt.Sprintf("moving the object of key %d to the free key %d failed: %v", k, k+50, err))
				return
			}
			delete(holder, k)
			holder[k+50] = u
			if !probeAll(fmt.Sprintf("after moving keys 0..%d to 50..%d", k, k+50), wide) {
				return
			}
		}
		// deletions from the middle
		for len(holder) > 0 {
			keys := []int{}
			for k := range wide {
				if _, ok := holder[wide[k]]; ok {
					keys = append(keys, wide[k])
				}
			}
			k := keys[len(keys)/2]
			o := &Wide{}
			o.Initialize(holder[k])
			if err := db.Delete(o); err != nil {
				fail("delete", fmt.Sprintf("deleting the object of key %d failed: %v", k, err))
				return
			}
			delete(holder, k)
			if !probeAll(fmt.Sprintf("after deleting down to %d objects", len(holder)), wide) {
				return
			}
		}
	})
	for _, p := range ex.Panics {
		fail("panic|"+normPanic(p.Value+" @ "+sodFrame(p.Stack)), "panic: "+p.Value+"\n"+trimStack(p.Stack))
	}
	if ex.Deadlock || ex.Horizon {
		fail("stuck", "the sweep blocked")
	}
	return viol
}

func runC03Long(c *Ctx) {
	n := 5
	cfgs := []Cfg{{}, {Cache: true, Index: 1}}
	if c.Tier == "thorough" {
		n = 7
		cfgs = append(cfgs, Cfg{Async: 2}, Cfg{Compress: true, Lower: true})
	}
	item := 0
	for _, cfg := range cfgs {
		for pi, perm := range permutations(n) {
			item++
			if item%c.NShards != c.Shard {
				continue
			}
			if c.Expired() {
				c.Count("depth_incomplete", 1)
				return
			}
			for _, v := range uniqueLongSweep(c, cfg, perm) {
				c.Violation(v)
			}
			c.Count("transitions", 3*n+1)
			c.Count("paths_replayed", 1)
			key := fmt.Sprintf("long|%s|%d", cfg.String(), pi)
			c.Distinct("states", key)
			c.Distinct("distinct_nontrivial", key)
		}
	}
}
