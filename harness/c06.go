package main

import (
	"errors"
	"fmt"
	"math"
	"strings"

	"github.com/0xrawsec/sod"
)

func init() {
	drivers["C06"] = runC06
}

// Rejection is one rejecting call: it runs the call and returns its error and
// the documented class predicate.
type Rejection struct {
	Name string
	// Needs tells whether the rejection applies in the world (e.g. needs a stored object)
	Needs func(w *World) bool
	Call  func(w *World) error
	Class func(err error) bool
}

func anyStored(w *World) bool { return len(w.M.Objs) > 0 }

func firstStored(w *World) (string, *Rec) {
	for _, u := range w.M.UUIDs() {
		return u, w.M.Objs[u]
	}
	return "", nil
}

func secondStored(w *World) (string, *Rec) {
	us := w.M.UUIDs()
	if len(us) < 2 {
		return "", nil
	}
	return us[1], w.M.Objs[us[1]]
}

func rejections() []Rejection {
	isInvalid := func(err error) bool { return errors.Is(err, sod.ErrInvalidObject) }
	anyErr := func(err error) bool { return err != nil }
	return []Rejection{
		{"invalid-insert", hasFree(1), func(w *World) error {
			r := NewRec(1, freeKeys(w)[0])
			r.P = InvalidP
			return w.DB.InsertOrUpdate(r)
		}, isInvalid},
		{"invalid-update", anyStored, func(w *World) error {
			u, m := firstStored(w)
			r := cloneRec(m)
			r.Initialize(u)
			r.P = InvalidP
			r.S = "changed"
			return w.DB.InsertOrUpdate(r)
		}, isInvalid},
		{"unique-insert", anyStored, func(w *World) error {
			_, m := firstStored(w)
			r := NewRec(2, 4)
			r.K = m.K // canonical form of a stored key
			return w.DB.InsertOrUpdate(r)
		}, sod.IsUnique},
		{"unique-insert-case-variant", anyStored, func(w *World) error {
			_, m := firstStored(w)
			r := NewRec(2, 4)
			r.K = lowerASCII(m.K)
			return w.DB.InsertOrUpdate(r)
		}, sod.IsUnique},
		{"unique-update-of-stored", func(w *World) bool { return len(w.M.Objs) >= 2 }, func(w *World) error {
			u, m := firstStored(w)
			_, m2 := secondStored(w)
			r := cloneRec(m)
			r.Initialize(u)
			r.N = m2.N // onto the other object's unique value
			r.S = "changed"
			r.A = 4242
			return w.DB.InsertOrUpdate(r)
		}, sod.IsUnique},
		{"unique-reinsert-deleted-id", func(w *World) bool { return len(w.Dead) > 0 && anyStored(w) }, func(w *World) error {
			_, m := firstStored(w)
			r := NewRec(3, 4)
			r.Initialize(setKeys(w.Dead)[0])
			r.N = m.N
			return w.DB.InsertOrUpdate(r)
		}, sod.IsUnique},
		{"many-wrong-type", hasFree(1), func(w *World) error {
			_, err := w.DB.InsertOrUpdateMany(NewRec(1, freeKeys(w)[0]), &Other{X: 1})
			return err
		}, anyErr},
		{"many-invalid-last", hasFree(2), func(w *World) error {
			fk := freeKeys(w)
			bad := NewRec(2, fk[1])
			bad.P = InvalidP
			_, err := w.DB.InsertOrUpdateMany(NewRec(1, fk[0]), bad)
			return err
		}, isInvalid},
		{"many-conflict-inside", hasFree(1), func(w *World) error {
			fk := freeKeys(w)
			a, b := NewRec(1, fk[0]), NewRec(2, fk[0])
			_, err := w.DB.InsertOrUpdateMany(a, b)
			return err
		}, sod.IsUnique},
		{"many-conflict-inside-case-variant", hasFree(2), func(w *World) error {
			// the second element collides with the first only after case canonicalisation
			fk := freeKeys(w)
			a, b := NewRec(1, fk[0]), NewRec(2, fk[1])
			a.K = strings.ToUpper(a.K)
			b.K = lowerASCII(a.K)
			_, err := w.DB.InsertOrUpdateMany(a, b)
			return err
		}, sod.IsUnique},
		{"many-conflict-stored-case-variant", func(w *World) bool { return anyStored(w) && len(freeKeys(w)) >= 2 }, func(w *World) error {
			// the last element collides with a stored object only after case canonicalisation
			fk := freeKeys(w)
			_, m := firstStored(w)
			a, b := NewRec(1, fk[0]), NewRec(2, fk[1])
			b.K = lowerASCII(m.K)
			_, err := w.DB.InsertOrUpdateMany(a, b)
			return err
		}, sod.IsUnique},
		{"many-update-then-fresh-same-key", func(w *World) bool { return anyStored(w) && len(freeKeys(w)) >= 1 }, func(w *World) error {
			// a stored object moves to a free key which a later member of the same batch takes too
			fk := freeKeys(w)
			u, m := firstStored(w)
			upd := cloneRec(m)
			upd.Initialize(u)
			other := NewRec(2, fk[0])
			upd.K = other.K
			upd.S = "moved"
			_, err := w.DB.InsertOrUpdateMany(upd, other)
			return err
		}, sod.IsUnique},
		{"many-two-updates-same-key", func(w *World) bool { return len(w.M.Objs) >= 2 && len(freeKeys(w)) >= 1 }, func(w *World) error {
			// two stored objects move to the same free key in one batch
			fk := freeKeys(w)
			u1, m1 := firstStored(w)
			u2, m2 := secondStored(w)
			a, b := cloneRec(m1), cloneRec(m2)
			a.Initialize(u1)
			b.Initialize(u2)
			a.K, b.K = tabK[fk[0]], tabK[fk[0]]
			a.S, b.S = "moved", "moved"
			_, err := w.DB.InsertOrUpdateMany(a, b)
			return err
		}, sod.IsUnique},
		{"many-update-conflict", func(w *World) bool { return len(w.M.Objs) >= 2 }, func(w *World) error {
			u, m := firstStored(w)
			_, m2 := secondStored(w)
			r := cloneRec(m)
			r.Initialize(u)
			r.K = m2.K
			r.U16 = 4242
			fk := freeKeys(w)
			if len(fk) == 0 {
				_, err := w.DB.InsertOrUpdateMany(r)
				return err
			}
			_, err := w.DB.InsertOrUpdateMany(NewRec(1, fk[0]), r)
			return err
		}, sod.IsUnique},
		{"unknown-collection", nil, func(w *World) error {
			return w.DB.InsertOrUpdate(&Other{X: 3})
		}, anyErr},
		{"unserialisable-insert", hasFree(1), func(w *World) error {
			r := NewRec(1, freeKeys(w)[0])
			r.Q = math.NaN()
			return w.DB.InsertOrUpdate(r)
		}, anyErr},
		{"unserialisable-update", anyStored, func(w *World) error {
			u, m := firstStored(w)
			r := cloneRec(m)
			r.Initialize(u)
			r.Q = math.Inf(1)
			r.S = "changed"
			return w.DB.InsertOrUpdate(r)
		}, anyErr},
		{"unserialisable-in-batch", hasFree(2), func(w *World) error {
			fk := freeKeys(w)
			r := NewRec(2, fk[1])
			r.Q = math.NaN()
			_, err := w.DB.InsertOrUpdateMany(NewRec(1, fk[0]), r)
			return err
		}, anyErr},
	}
}

// freeKey returns key classes whose K and N no stored object holds.
func freeKeys(w *World) []int {
	var out []int
	if w.M.UniqueP {
		return nil
	}
	for k := 0; k < NK; k++ {
		c := NewRec(0, k)
		canon(c)
		if !w.M.conflict("", c) {
			// and not conflicting with an earlier free key
			ok := true
			for _, j := range out {
				o := NewRec(0, j)
				canon(o)
				if o.K == c.K || o.N == c.N {
					ok = false
				}
			}
			if ok {
				out = append(out, k)
			}
		}
	}
	return out
}

func hasFree(n int) func(w *World) bool {
	return func(w *World) bool { return len(freeKeys(w)) >= n }
}

func lowerASCII(s string) string {
	b := []byte(s)
	for i, c := range b {
		if c >= 'A' && c <= 'Z' {
			b[i] = c + 32
		}
	}
	return string(b)
}

func runC06(c *Ctx) {
	depth := 2
	cfgs := []Cfg{{}, {Cache: true}, {Async: 1}, {Cache: true, Compress: true, Index: 2}, {Async: 2, Index: 1}}
	if c.Tier == "thorough" {
		depth = 3
		cfgs = cfgQuick
	}
	rejs := rejections()
	opt := ObsOpt{Ordered: true, Trees: false}
	// follow-up letters after a rejected call (quick: a representative subset)
	followQuick := map[string]bool{"ins": true, "upd": true, "del": true, "reopen": true, "all": true, "sdel": true, "many": true}
	for _, cfg := range cfgs {
		cfg := cfg
		ord := func(p string) bool { return indexedUnder(cfg, p) }
		alphabet := alphabetC01(cfg, "quick")
		e := &Explorer{C: c, Cfg: cfg, Prop: "C06", Alphabet: alphabet, Depth: depth, MaxLive: 3, Collect: true, NoShard: true}
		e.Run()
		item := 0
		for _, st := range e.States {
			for _, rj := range rejs {
				// follow-ups: none, then each alphabet letter once (latent damage)
				for f := -1; f < len(alphabet); f++ {
					if f >= 0 && c.Tier == "quick" && (!followQuick[alphabet[f].Op] || alphabet[f].Slot > 0 || alphabet[f].K > 2) {
						continue
					}
					item++
					if item%c.NShards != c.Shard {
						continue
					}
					if c.Expired() {
						c.Count("depth_incomplete", 1)
						return
					}
					rj, f := rj, f
					ran := false
					res := RunPath(cfg, "C06", st, func(w *World) {
						if rj.Needs != nil && !rj.Needs(w) {
							return
						}
						if f >= 0 && !w.Applicable(alphabet[f]) {
							return
						}
						ran = true
						w.Viol = nil
						before := w.Observe(opt, ord)
						fsBefore := fsDigest(w)
						err := rj.Call(w)
						if err == nil {
							w.fail("rejection-accepted|"+rj.Name, "the call "+rj.Name+" was expected to be rejected but succeeded")
							return
						}
						if !rj.Class(err) {
							w.fail("rejection-class|"+rj.Name, fmt.Sprintf("the call %s failed with an error of the wrong class: %v", rj.Name, err))
							return
						}
						after := w.Observe(opt, ord)
						if before != after {
							w.fail("rejected-write-visible|"+rj.Name+"|"+diffKind(before, after), "after the rejected call "+rj.Name+" ("+err.Error()+") reads differ:\n"+firstDiff(before, after))
							return
						}
						if w.Cfg.Async == 0 && fsDigest(w) != fsBefore {
							w.fail("rejected-write-files|"+rj.Name, "the rejected call "+rj.Name+" changed files of the database")
							return
						}
						if w.Cfg.Async == 0 {
							if cerr := w.Control(); cerr != nil {
								w.fail("rejected-write-control|"+rj.Name, "Control fails after the rejected call "+rj.Name+": "+cerr.Error())
								return
							}
						}
						if f >= 0 {
							w.Apply(alphabet[f])
							if len(w.Viol) == 0 {
								w.SweepBasic()
								w.SearchSweep(false)
							}
							for i := range w.Viol {
								w.Viol[i].Sig = "C06|latent|" + rj.Name + "|" + w.Viol[i].Sig[4:]
								w.Viol[i].What = "after the rejected call " + rj.Name + ": " + w.Viol[i].What
							}
						}
					})
					if !ran {
						continue
					}
					c.Count("evaluations", 1)
					c.Count("transitions", 1)
					c.Count("paths_replayed", 1)
					c.Distinct("distinct_nontrivial", cfg.String()+jsonOf(st)+rj.Name+fmt.Sprint(f))
					for _, v := range res.W.Viol {
						c.Violation(v)
					}
				}
			}
		}
	}
	names := []string{}
	for _, r := range rejs {
		names = append(names, r.Name)
	}
	c.Sample(map[string]interface{}{"rejections": names})
	c.Meta(map[string]interface{}{
		"rule":    "rejections: on every state reached by BFS (C01 alphabet, stated depth, cache and async on and off) every rejecting call of the menu (validation failure as insert and as update, uniqueness conflict as insert / case variant / update of a stored object / re-insert of a deleted id, wrong type and invalid and conflicting members in a batch, unknown collection, unserialisable value as insert / update / batch member) must fail with its documented class, leave the ordered observation vector and the files identical, keep Control quiet, and every alphabet call applied afterwards must still refine the reference (latent damage). Storage faults: see the fault part of this evidence. Non-trivial = distinct (state, rejection, follow-up).",
		"configs": cfgs, "base_depth": depth,
	})
	runC06Faults(c)
}
