package main

import "time"

type timeTime = time.Time
