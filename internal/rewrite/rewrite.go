// Package rewrite instruments a copy of package sod's current working tree for the
// verification build (DESIGN.md section 2.2): imports of sync, os, io/ioutil, time,
// context and google/uuid are redirected to the shims, "go" statements become
// vrt.Go, and ranges over maps iterate in an order the explorer owns. The result
// is written to a scratch directory together with an overlay.json for
// "go build -overlay"; /repo itself is never touched.
package rewrite

import (
	"bytes"
	"encoding/json"
	"fmt"
	"go/ast"
	"go/importer"
	"go/parser"
	"go/printer"
	"go/token"
	"go/types"
	"os"
	"path/filepath"
	"sort"
	"strconv"
	"strings"
)

const ShimBase = "github.com/0xrawsec/sod/zzverif/"

// redirected imports: original path -> shim package name
var redirect = map[string]string{
	"sync":                   "vsync",
	"os":                     "vos",
	"io/ioutil":              "vioutil",
	"time":                   "vtime",
	"context":                "vcontext",
	"github.com/google/uuid": "vuuid",
}

// default local names of redirected imports
var defaultName = map[string]string{
	"sync": "sync", "os": "os", "io/ioutil": "ioutil", "time": "time", "context": "context",
	"github.com/google/uuid": "uuid",
}

// imports that can touch scheduling, time or storage behind the explorer's back
var forbidden = map[string]string{
	"sync/atomic":   "atomic operations are not modelled",
	"os/exec":       "sub-processes are not modelled",
	"os/signal":     "signals are not modelled",
	"net":           "network is not modelled",
	"net/http":      "network is not modelled",
	"syscall":       "raw system calls are not modelled",
	"C":             "cgo is not modelled",
	"io/fs":         "",
	"path/filepath": "",
}

// Result of a rewrite.
type Result struct {
	Overlay string // path of overlay.json
	// OverlayShimsOnly: overlay that only adds the shim packages (sod sources untouched)
	OverlayShimsOnly string
	Files            []string // rewritten files
	MapRanges        int
	GoStmts          int
	LockSites        []string // file:line of every Lock/RLock call (original positions)
	Warnings         []string
}

type unsupported struct{ msg string }

func (u unsupported) Error() string { return u.msg }

// IsUnsupported tells whether err reports a construct the rewriter cannot model.
func IsUnsupported(err error) bool { _, ok := err.(unsupported); return ok }

// Run rewrites the package in repo into outDir; shimDir holds the shim sources,
// extra maps additional virtual file paths (relative to repo) to real files.
func Run(repo, shimDir, outDir string, extra map[string]string) (*Result, error) {
	fset := token.NewFileSet()
	entries, err := os.ReadDir(repo)
	if err != nil {
		return nil, err
	}
	var files []*ast.File
	var names []string
	for _, e := range entries {
		n := e.Name()
		if e.IsDir() || !strings.HasSuffix(n, ".go") || strings.HasSuffix(n, "_test.go") {
			continue
		}
		f, err := parser.ParseFile(fset, filepath.Join(repo, n), nil, parser.ParseComments)
		if err != nil {
			return nil, fmt.Errorf("parse: %w", err)
		}
		if f.Name.Name != "sod" {
			continue
		}
		files = append(files, f)
		names = append(names, n)
	}
	if len(files) == 0 {
		return nil, fmt.Errorf("no source files of package sod in %s", repo)
	}

	// type-check (needed to recognise ranges over maps)
	cwd, _ := os.Getwd()
	if err := os.Chdir(repo); err != nil {
		return nil, err
	}
	info := &types.Info{Types: map[ast.Expr]types.TypeAndValue{}}
	conf := types.Config{Importer: importer.ForCompiler(fset, "source", nil), Error: func(error) {}}
	_, terr := conf.Check("github.com/0xrawsec/sod", fset, files, info)
	os.Chdir(cwd)
	if terr != nil {
		return nil, fmt.Errorf("type-check of %s failed: %v", repo, terr)
	}

	res := &Result{}
	overlay := map[string]string{}
	for i, f := range files {
		rw := &fileRewriter{fset: fset, info: info, res: res, file: f}
		if err := rw.rewrite(); err != nil {
			return nil, err
		}
		var buf bytes.Buffer
		if err := (&printer.Config{Mode: printer.UseSpaces | printer.TabIndent, Tabwidth: 8}).Fprint(&buf, fset, f); err != nil {
			return nil, err
		}
		out := filepath.Join(outDir, names[i])
		if err := os.WriteFile(out, buf.Bytes(), 0644); err != nil {
			return nil, err
		}
		overlay[filepath.Join(repo, names[i])] = out
		res.Files = append(res.Files, out)
	}

	// shims as virtual packages of the sod module
	shims, err := os.ReadDir(shimDir)
	if err != nil {
		return nil, err
	}
	for _, d := range shims {
		if !d.IsDir() {
			continue
		}
		fs, _ := os.ReadDir(filepath.Join(shimDir, d.Name()))
		for _, f := range fs {
			if strings.HasSuffix(f.Name(), ".go") && !strings.HasSuffix(f.Name(), "_test.go") {
				overlay[filepath.Join(repo, "zzverif", d.Name(), f.Name())] = filepath.Join(shimDir, d.Name(), f.Name())
			}
		}
	}
	for rel, real := range extra {
		overlay[filepath.Join(repo, rel)] = real
	}
	// a second overlay with the shim packages only: package sod itself untouched
	// (used by the self-test that compares the shimmed build with the real thing)
	shimsOnly := map[string]string{}
	for k, v := range overlay {
		if strings.Contains(k, "/zzverif/") {
			shimsOnly[k] = v
		}
	}
	sdata, _ := json.MarshalIndent(map[string]interface{}{"Replace": shimsOnly}, "", " ")
	res.OverlayShimsOnly = filepath.Join(outDir, "overlay_shims.json")
	if err := os.WriteFile(res.OverlayShimsOnly, sdata, 0644); err != nil {
		return nil, err
	}
	data, _ := json.MarshalIndent(map[string]interface{}{"Replace": overlay}, "", " ")
	res.Overlay = filepath.Join(outDir, "overlay.json")
	if err := os.WriteFile(res.Overlay, data, 0644); err != nil {
		return nil, err
	}
	sort.Strings(res.LockSites)
	return res, nil
}

type fileRewriter struct {
	fset    *token.FileSet
	info    *types.Info
	res     *Result
	file    *ast.File
	needVrt bool
	counter int
}

func (rw *fileRewriter) pos(n ast.Node) string {
	p := rw.fset.Position(n.Pos())
	return fmt.Sprintf("%s:%d", filepath.Base(p.Filename), p.Line)
}

func (rw *fileRewriter) rewrite() error {
	f := rw.file
	// imports
	for _, imp := range f.Imports {
		path, _ := strconv.Unquote(imp.Path.Value)
		if why, bad := forbidden[path]; bad && why != "" {
			return unsupported{fmt.Sprintf("UNSUPPORTED import %q at %s: %s", path, rw.pos(imp), why)}
		}
		if shim, ok := redirect[path]; ok {
			if imp.Name == nil {
				imp.Name = ast.NewIdent(defaultName[path])
			}
			if imp.Name.Name == "." {
				return unsupported{fmt.Sprintf("UNSUPPORTED dot import of %q at %s", path, rw.pos(imp))}
			}
			imp.Path.Value = strconv.Quote(ShimBase + shim)
			imp.EndPos = 0
		}
	}
	// constructs we refuse to model
	var bad error
	ast.Inspect(f, func(n ast.Node) bool {
		switch x := n.(type) {
		case *ast.SelectStmt:
			bad = unsupported{fmt.Sprintf("UNSUPPORTED select statement at %s", rw.pos(x))}
		case *ast.CallExpr:
			if sel, ok := x.Fun.(*ast.SelectorExpr); ok {
				switch sel.Sel.Name {
				case "Lock", "RLock":
					rw.res.LockSites = append(rw.res.LockSites, rw.pos(x)+":"+sel.Sel.Name)
				}
			}
		}
		return bad == nil
	})
	if bad != nil {
		return bad
	}
	// statement-level rewrites
	var rerr error
	ast.Inspect(f, func(n ast.Node) bool {
		if rerr != nil {
			return false
		}
		switch x := n.(type) {
		case *ast.BlockStmt:
			rerr = rw.rewriteList(x.List)
		case *ast.CaseClause:
			rerr = rw.rewriteList(x.Body)
		case *ast.CommClause:
			rerr = rw.rewriteList(x.Body)
		case *ast.LabeledStmt:
			if r, ok := x.Stmt.(*ast.RangeStmt); ok && rw.isMap(r.X) {
				rerr = unsupported{fmt.Sprintf("UNSUPPORTED labelled range over a map at %s", rw.pos(r))}
			}
			if g, ok := x.Stmt.(*ast.GoStmt); ok {
				x.Stmt = rw.goStmt(g)
			}
		}
		return true
	})
	if rerr != nil {
		return rerr
	}
	if rw.needVrt {
		addImport(f, "zzvrt", ShimBase+"vrt")
	}
	return nil
}

func (rw *fileRewriter) isMap(e ast.Expr) bool {
	tv, ok := rw.info.Types[e]
	if !ok || tv.Type == nil {
		return false
	}
	_, isMap := tv.Type.Underlying().(*types.Map)
	return isMap
}

func (rw *fileRewriter) rewriteList(list []ast.Stmt) error {
	for i, st := range list {
		switch x := st.(type) {
		case *ast.GoStmt:
			list[i] = rw.goStmt(x)
		case *ast.RangeStmt:
			if rw.isMap(x.X) {
				ns, err := rw.mapRange(x)
				if err != nil {
					return err
				}
				list[i] = ns
			}
		}
	}
	return nil
}

func (rw *fileRewriter) goStmt(g *ast.GoStmt) ast.Stmt {
	rw.needVrt = true
	rw.res.GoStmts++
	var fn ast.Expr
	if lit, ok := g.Call.Fun.(*ast.FuncLit); ok && len(g.Call.Args) == 0 && lit.Type.Params.NumFields() == 0 && lit.Type.Results.NumFields() == 0 {
		fn = lit
	} else {
		if len(g.Call.Args) > 0 {
			rw.res.Warnings = append(rw.res.Warnings, fmt.Sprintf("go statement with arguments at %s: arguments are evaluated in the new thread", rw.pos(g)))
		}
		fn = &ast.FuncLit{
			Type: &ast.FuncType{Params: &ast.FieldList{}},
			Body: &ast.BlockStmt{List: []ast.Stmt{&ast.ExprStmt{X: g.Call}}},
		}
	}
	return &ast.ExprStmt{X: &ast.CallExpr{
		Fun:  &ast.SelectorExpr{X: ast.NewIdent("zzvrt"), Sel: ast.NewIdent("Go")},
		Args: []ast.Expr{fn},
	}}
}

func isBlank(e ast.Expr) bool {
	if e == nil {
		return true
	}
	id, ok := e.(*ast.Ident)
	return ok && id.Name == "_"
}

func (rw *fileRewriter) mapRange(r *ast.RangeStmt) (ast.Stmt, error) {
	rw.needVrt = true
	rw.res.MapRanges++
	rw.counter++
	n := strconv.Itoa(rw.counter)
	zm, zk, zok := ast.NewIdent("zzm"+n), ast.NewIdent("zzk"+n), ast.NewIdent("zzok"+n)

	var pre []ast.Stmt
	tok := r.Tok
	if tok != token.DEFINE && tok != token.ASSIGN {
		tok = token.DEFINE
	}
	if !isBlank(r.Key) {
		pre = append(pre, &ast.AssignStmt{Lhs: []ast.Expr{r.Key}, Tok: tok, Rhs: []ast.Expr{zk}})
	}
	idx := &ast.IndexExpr{X: zm, Index: zk}
	if !isBlank(r.Value) && tok == token.ASSIGN {
		pre = append(pre,
			&ast.DeclStmt{Decl: &ast.GenDecl{Tok: token.VAR, Specs: []ast.Spec{&ast.ValueSpec{Names: []*ast.Ident{zok}, Type: ast.NewIdent("bool")}}}},
			&ast.AssignStmt{Lhs: []ast.Expr{r.Value, zok}, Tok: token.ASSIGN, Rhs: []ast.Expr{idx}})
	} else {
		var v ast.Expr = ast.NewIdent("_")
		if !isBlank(r.Value) {
			v = r.Value
		}
		pre = append(pre, &ast.AssignStmt{Lhs: []ast.Expr{v, zok}, Tok: token.DEFINE, Rhs: []ast.Expr{idx}})
	}
	pre = append(pre, &ast.IfStmt{
		Cond: &ast.UnaryExpr{Op: token.NOT, X: zok},
		Body: &ast.BlockStmt{List: []ast.Stmt{&ast.BranchStmt{Tok: token.CONTINUE}}},
	})
	body := &ast.BlockStmt{List: append(pre, r.Body.List...)}
	loop := &ast.RangeStmt{
		Key:   ast.NewIdent("_"),
		Value: zk,
		Tok:   token.DEFINE,
		X: &ast.CallExpr{
			Fun:  &ast.SelectorExpr{X: ast.NewIdent("zzvrt"), Sel: ast.NewIdent("MapKeys")},
			Args: []ast.Expr{zm},
		},
		Body: body,
	}
	return &ast.BlockStmt{List: []ast.Stmt{
		&ast.AssignStmt{Lhs: []ast.Expr{zm}, Tok: token.DEFINE, Rhs: []ast.Expr{r.X}},
		loop,
	}}, nil
}

func addImport(f *ast.File, name, path string) {
	spec := &ast.ImportSpec{Name: ast.NewIdent(name), Path: &ast.BasicLit{Kind: token.STRING, Value: strconv.Quote(path)}}
	for _, d := range f.Decls {
		if gd, ok := d.(*ast.GenDecl); ok && gd.Tok == token.IMPORT {
			gd.Specs = append(gd.Specs, spec)
			if !gd.Lparen.IsValid() {
				gd.Lparen = gd.Pos()
				gd.Rparen = gd.End()
			}
			f.Imports = append(f.Imports, spec)
			return
		}
	}
	gd := &ast.GenDecl{Tok: token.IMPORT, Specs: []ast.Spec{spec}}
	f.Decls = append([]ast.Decl{gd}, f.Decls...)
	f.Imports = append(f.Imports, spec)
}
