#!/bin/sh
# Builds the orchestrator and warms the Go build cache (plain and -race) for the
# harness, offline. Run once after a fresh restore: MANIFEST.setup_cmd.
set -e
cd "$(dirname "$0")"
export GOFLAGS=-mod=mod GOPROXY=off GOSUMDB=off GOTOOLCHAIN=local
mkdir -p bin evidence replays
go build -o bin/check ./cmd/check
# warm the race-instrumented standard library (C08 builds the harness with -race)
go build -race -o /dev/null ./cmd/check ./cmd/rewriteonly
# warm caches + environment-model conformance self-tests
./bin/check SELFTEST --tier quick
